//! C20: parser feature configurations differ only by their documented limits.
//!
//! Every configuration is compared with the SAME reference model on 7-bit input, so equal
//! callbacks across configurations follow by transitivity.  The fixed-buffer build is
//! compared with the model's "payload truncated at 1024 bytes" variant at the boundary.
use crate::c02::*;
use anstyle_parse::{Params, Parser, Perform};
use vmodels::vt::{self, St, Vt};

const CAP: usize = 1024;
const BIG: usize = 1030;

/// A parser inside an OSC string whose payload already holds `len` bytes ('x') and
/// `cuts` completed (empty-prefix) fields, with the model in the same situation.
fn osc_at(len: usize, first_cut: Option<usize>) -> (Parser, Vt<BIG>) {
    let mut m: Vt<BIG> = Vt::new();
    m.st = St::OscString;
    #[cfg(feature = "fx_core")]
    {
        m.osc_cap = Some(CAP);
    }
    let mut i = 0;
    while i < len {
        m.osc[i] = b'x';
        i += 1;
    }
    m.osc_len = len;
    let mut osc_params = [(0usize, 0usize); 16];
    let mut n_cuts = 0;
    if let Some(c) = first_cut {
        m.cuts[0] = c;
        m.n_cuts = 1;
        osc_params[0] = (0, c);
        n_cuts = 1;
    }
    let raw = [b'x'; BIG];
    let p = Parser::verif_from_parts(anstyle_parse::VerifParts {
        state: real_state(St::OscString),
        intermediates: [0; 2],
        intermediate_idx: 0,
        params: Params::default(),
        param: 0,
        osc_raw: &raw[..len],
        osc_params,
        osc_num_params: n_cuts,
        ignoring: false,
        utf8_parser: Default::default(),
    });
    (p, m)
}

fn lock<const N: usize>(parser: &mut Parser, model: &mut Vt<N>, b: u8) -> bool {
    let evs = model.step(b);
    let mut chk = Checker::new(&*model, evs);
    parser.advance(&mut chk, b);
    chk.finished()
}

macro_rules! boundary_case {
    ($name:ident, $len:expr, $cut:expr) => {
        /// Two arbitrary 7-bit bytes at the buffer boundary, then the terminator.
        #[kani::proof]
        #[kani::unwind(1034)]
        fn $name() {
            let (mut p, mut m) = osc_at($len, $cut);
            let b1: u8 = kani::any();
            let b2: u8 = kani::any();
            kani::assume(b1 < 0x80 && b2 < 0x80);
            assert!(lock(&mut p, &mut m, b1), "first byte at the boundary");
            assert!(lock(&mut p, &mut m, b2), "second byte at the boundary");
            let was_osc = m.st == St::OscString;
            // terminate whatever is in progress and look at what is dispatched
            assert!(lock(&mut p, &mut m, 0x07), "terminator: payload truncated at the limit, never overflowed");
            // what follows is parsed as by a fresh parser
            assert!(lock(&mut p, &mut m, 0x1B));
            assert!(lock(&mut p, &mut m, b'['));
            assert!(lock(&mut p, &mut m, b'1'));
            assert!(lock(&mut p, &mut m, b'm'), "parsing after an oversize OSC is unaffected");
            let len_after = p.verif_parts().osc_raw.len();
            #[cfg(feature = "fx_core")]
            assert!(len_after <= CAP, "the fixed buffer never holds more than its capacity");
            kani::cover!(was_osc && b1 == b';' && b2 == b'y');
            kani::cover!(was_osc && b1 == b'y' && b2 == b'y');
            kani::cover!(!was_osc);
        }
    };
}

boundary_case!(osc_boundary_1022, 1022, None);
boundary_case!(osc_boundary_1023, 1023, None);
boundary_case!(osc_boundary_1024, 1024, None);
boundary_case!(osc_boundary_1023_cut, 1023, Some(5));
boundary_case!(osc_boundary_1024_cut, 1024, Some(1024));
