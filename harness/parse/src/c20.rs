//! C20: parser feature configurations differ only by their documented limits.
//!
//! Every configuration is compared with the SAME reference model on 7-bit input, so equal
//! callbacks across configurations follow by transitivity.  The fixed-buffer build is
//! compared with the model's "payload truncated at 1024 bytes" variant at the boundary.
use crate::c02::*;
use anstyle_parse::{Params, Parser, Perform};
use vmodels::vt::{self, St, Vt};

const CAP: usize = 1024;
const BIG: usize = 1030;

/// A parser inside an OSC string whose payload already holds `len` bytes ('x') and
/// `cuts` completed (empty-prefix) fields, with the model in the same situation.
fn osc_at(len: usize, first_cut: Option<usize>) -> (Parser, Vt<BIG>) {
    let mut m: Vt<BIG> = Vt::new();
    m.st = St::OscString;
    #[cfg(feature = "fx_core")]
    {
        m.osc_cap = Some(CAP);
    }
    m.osc = [b'x'; BIG];
    m.osc_len = len;
    let mut osc_params = [(0usize, 0usize); 16];
    let mut n_cuts = 0;
    if let Some(c) = first_cut {
        m.cuts[0] = c;
        m.n_cuts = 1;
        osc_params[0] = (0, c);
        n_cuts = 1;
    }
    let raw = [b'x'; BIG];
    let p = Parser::verif_from_parts(anstyle_parse::VerifParts {
        state: real_state(St::OscString),
        intermediates: [0; 2],
        intermediate_idx: 0,
        params: Params::default(),
        param: 0,
        osc_raw: &raw[..len],
        osc_params,
        osc_num_params: n_cuts,
        ignoring: false,
        utf8_parser: Default::default(),
    });
    (p, m)
}

/// Compact record of one callback (what the boundary harness needs to see: kinds, counts,
/// lengths and the bytes at the ends -- not a 1 KiB byte-by-byte comparison).
#[derive(Clone, Copy, PartialEq, Eq, Debug)]
struct Obs {
    kind: u8,
    a: usize,
    b: usize,
    c: usize,
    d: u32,
}

const NONE: Obs = Obs {
    kind: 0,
    a: 0,
    b: 0,
    c: 0,
    d: 0,
};

struct Recorder {
    evs: [Obs; 3],
    n: usize,
}

impl Recorder {
    fn new() -> Self {
        Recorder { evs: [NONE; 3], n: 0 }
    }
    fn rec(&mut self, o: Obs) {
        if self.n < 3 {
            self.evs[self.n] = o;
        }
        self.n += 1;
    }
}

impl Perform for Recorder {
    fn print(&mut self, c: char) {
        self.rec(Obs { kind: 1, a: 0, b: 0, c: 0, d: c as u32 });
    }
    fn execute(&mut self, byte: u8) {
        self.rec(Obs { kind: 2, a: 0, b: 0, c: 0, d: byte as u32 });
    }
    fn osc_dispatch(&mut self, params: &[&[u8]], bell: bool) {
        let n = params.len();
        let first = if n > 0 { params[0].len() } else { 0 };
        let last = if n > 0 { params[n - 1].len() } else { 0 };
        // last byte of the last field (0 if empty), and the terminator kind
        let tail = if n > 0 && last > 0 { params[n - 1][last - 1] } else { 0 };
        self.rec(Obs { kind: 3, a: n, b: first, c: last, d: ((tail as u32) << 1) | bell as u32 });
    }
    fn csi_dispatch(&mut self, params: &Params, intermediates: &[u8], ignore: bool, action: u8) {
        let first = match params.iter().next() {
            Some(g) if !g.is_empty() => g[0] as usize,
            _ => 0,
        };
        self.rec(Obs { kind: 4, a: params.len(), b: first, c: intermediates.len(), d: ((action as u32) << 1) | ignore as u32 });
    }
    fn esc_dispatch(&mut self, intermediates: &[u8], ignore: bool, byte: u8) {
        self.rec(Obs { kind: 5, a: intermediates.len(), b: 0, c: 0, d: ((byte as u32) << 1) | ignore as u32 });
    }
    fn hook(&mut self, params: &Params, intermediates: &[u8], ignore: bool, action: u8) {
        self.rec(Obs { kind: 6, a: params.len(), b: 0, c: intermediates.len(), d: ((action as u32) << 1) | ignore as u32 });
    }
    fn put(&mut self, byte: u8) {
        self.rec(Obs { kind: 7, a: 0, b: 0, c: 0, d: byte as u32 });
    }
    fn unhook(&mut self) {
        self.rec(Obs { kind: 8, a: 0, b: 0, c: 0, d: 0 });
    }
}

/// The same record, derived from the model's expectation for this byte.
fn expected<const N: usize>(m: &Vt<N>, evs: &vt::Evs) -> ([Obs; 3], usize) {
    let mut out = [NONE; 3];
    let mut n = 0;
    let mut i = 0;
    while i < 3 {
        if let Some(ev) = evs.e[i] {
            out[n] = match ev {
                vt::Ev::Print(c) => Obs { kind: 1, a: 0, b: 0, c: 0, d: c },
                vt::Ev::Execute(b) => Obs { kind: 2, a: 0, b: 0, c: 0, d: b as u32 },
                vt::Ev::OscDispatch { bell } => {
                    let k = m.osc_fields();
                    let (b0, e0) = if k > 0 { m.osc_field(0) } else { (0, 0) };
                    let (bl, el) = if k > 0 { m.osc_field(k - 1) } else { (0, 0) };
                    let tail = if k > 0 && el > bl && el - 1 < N { m.osc[el - 1] } else { 0 };
                    Obs { kind: 3, a: k, b: e0 - b0, c: el - bl, d: ((tail as u32) << 1) | bell as u32 }
                }
                vt::Ev::CsiDispatch(a) => Obs { kind: 4, a: m.n, b: if m.n > 0 { m.vals[0] as usize } else { 0 }, c: m.n_inter, d: ((a as u32) << 1) | m.ignore as u32 },
                vt::Ev::EscDispatch(b) => Obs { kind: 5, a: m.n_inter, b: 0, c: 0, d: ((b as u32) << 1) | m.ignore as u32 },
                vt::Ev::Hook(a) => Obs { kind: 6, a: m.n, b: 0, c: m.n_inter, d: ((a as u32) << 1) | m.ignore as u32 },
                vt::Ev::Put(b) => Obs { kind: 7, a: 0, b: 0, c: 0, d: b as u32 },
                vt::Ev::Unhook => Obs { kind: 8, a: 0, b: 0, c: 0, d: 0 },
            };
            n += 1;
        }
        i += 1;
    }
    (out, n)
}

fn lock<const N: usize>(parser: &mut Parser, model: &mut Vt<N>, b: u8) -> bool {
    let evs = model.step(b);
    let (want, wn) = expected(&*model, &evs);
    let mut rec = Recorder::new();
    parser.advance(&mut rec, b);
    rec.n == wn && rec.evs[0] == want[0] && rec.evs[1] == want[1] && rec.evs[2] == want[2]
}

macro_rules! boundary_case {
    ($name:ident, $len:expr, $cut:expr) => {
        /// Two arbitrary 7-bit bytes at the buffer boundary, then the terminator.
        #[kani::proof]
        #[kani::unwind(20)]
        fn $name() {
            let (mut p, mut m) = osc_at($len, $cut);
            let b1: u8 = kani::any();
            let b2: u8 = kani::any();
            kani::assume(b1 < 0x80 && b2 < 0x80);
            assert!(lock(&mut p, &mut m, b1), "first byte at the boundary");
            assert!(lock(&mut p, &mut m, b2), "second byte at the boundary");
            let was_osc = m.st == St::OscString;
            // terminate whatever is in progress and look at what is dispatched
            assert!(lock(&mut p, &mut m, 0x07), "terminator: payload truncated at the limit, never overflowed");
            // what follows is parsed as by a fresh parser
            assert!(lock(&mut p, &mut m, 0x1B));
            assert!(lock(&mut p, &mut m, b'['));
            assert!(lock(&mut p, &mut m, b'1'));
            assert!(lock(&mut p, &mut m, b'm'), "parsing after an oversize OSC is unaffected");
            let len_after = p.verif_parts().osc_raw.len();
            #[cfg(feature = "fx_core")]
            assert!(len_after <= CAP, "the fixed buffer never holds more than its capacity");
            kani::cover!(was_osc && b1 == b';' && b2 == b'y');
            kani::cover!(was_osc && b1 == b'y' && b2 == b'y');
            kani::cover!(!was_osc);
        }
    };
}

boundary_case!(osc_boundary_1022, 1022, None);
boundary_case!(osc_boundary_1023, 1023, None);
boundary_case!(osc_boundary_1024, 1024, None);
boundary_case!(osc_boundary_1023_cut, 1023, Some(5));
boundary_case!(osc_boundary_1024_cut, 1024, Some(1024));
