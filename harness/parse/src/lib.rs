//! C20 (and a second home for the C02 harnesses): the parser alone, so that its cargo
//! features can be chosen per build.  `c02.rs` is the same file the core crate uses.
#![allow(dead_code, unused_imports, clippy::all)]

/// Same helper as in the core harness crate (nested loops of at most 8 iterations).
#[macro_export]
macro_rules! blocks {
    ($n:expr, $i:ident, $body:block) => {{
        let mut __b = 0usize;
        while __b * 8 < $n {
            let mut __j = 0usize;
            while __j < 8 && __b * 8 + __j < $n {
                let $i = __b * 8 + __j;
                $body
                __j += 1;
            }
            __b += 1;
        }
    }};
}

#[cfg(all(kani, any(feature = "c02", feature = "c20")))]
#[path = "/verif/harness/core/src/c02.rs"]
pub mod c02;

#[cfg(all(kani, feature = "c20"))]
pub mod c20;
