//! C20 (and a second home for the C02 harnesses): the parser alone, so that its cargo
//! features can be chosen per build.  `c02.rs` is the same file the core crate uses.
#![allow(dead_code, unused_imports, clippy::all)]

#[cfg(all(kani, any(feature = "c02", feature = "c20")))]
#[path = "../../core/src/c02.rs"]
pub mod c02;

#[cfg(all(kani, feature = "c20"))]
pub mod c20;
