//! What "stripping" means, stated over the VT model: keep the bytes of every printed
//! character (except DEL) and every executed TAB / LF / FF / CR; drop everything else.
//! The decision is per input byte, so the expected output is a subsequence of the input.

use crate::utf8::{Out, Utf8};
use crate::vt::{transition, Act, St};

#[derive(Clone, Copy, PartialEq, Eq, Debug)]
pub struct StripModel {
    pub st: St,
    pub utf8: Utf8,
}

#[derive(Clone, Copy, PartialEq, Eq, Debug)]
pub enum Keep {
    /// byte is visible text
    Yes,
    /// byte is dropped
    No,
    /// a control byte (ESC, DEL, non-whitespace C0) that ill-formed UTF-8 made part of a
    /// printed U+FFFD: the "bytes of every print" rule keeps it, the "no control byte in the
    /// output" rule forbids it.  Reported separately so a harness can treat the class apart.
    CtlInBrokenUtf8,
}

#[inline]
pub fn is_ws_ctl(b: u8) -> bool {
    matches!(b, 0x09 | 0x0A | 0x0C | 0x0D)
}

/// ESC, DEL or a C0 control other than TAB/LF/FF/CR: must never reach the output.
#[inline]
pub fn is_forbidden(b: u8) -> bool {
    (b < 0x20 && !is_ws_ctl(b)) || b == 0x7F
}

impl StripModel {
    pub fn new() -> Self {
        StripModel {
            st: St::Ground,
            utf8: Utf8::default(),
        }
    }

    pub fn step(&mut self, b: u8) -> Keep {
        if self.st == St::Utf8 {
            return match self.utf8.step(b) {
                Out::Pending => Keep::Yes,
                Out::Char(_) => {
                    self.st = St::Ground;
                    Keep::Yes
                }
                Out::Invalid => {
                    self.st = St::Ground;
                    if is_forbidden(b) {
                        Keep::CtlInBrokenUtf8
                    } else {
                        Keep::Yes
                    }
                }
            };
        }
        let (next, act) = transition(self.st, b);
        let keep = match act {
            Act::Print => b != 0x7F,
            Act::Execute => is_ws_ctl(b),
            Act::BeginUtf8 => {
                self.utf8 = Utf8::default();
                let _ = self.utf8.step(b);
                true
            }
            _ => false,
        };
        if let Some(next) = next {
            self.st = next;
        }
        if keep {
            Keep::Yes
        } else {
            Keep::No
        }
    }
}

/// Expected visible text of `input` from a fresh state (native convenience).
pub fn strip_spec(input: &[u8]) -> Vec<u8> {
    let mut m = StripModel::new();
    let mut out = Vec::new();
    for &b in input {
        if m.step(b) != Keep::No {
            out.push(b);
        }
    }
    out
}
