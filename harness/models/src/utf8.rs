//! UTF-8 decoding as the parser crate documents it (it delegates to `utf8parse`):
//! well-formed sequences per Unicode Table 3-7; a byte that cannot continue the current
//! sequence is *consumed*, yields U+FFFD and returns the decoder to its start state.

#[derive(Clone, Copy, PartialEq, Eq, Debug, Default)]
pub struct Utf8 {
    /// continuation bytes still expected (0 = idle)
    pub need: u8,
    /// admissible range of the next byte
    pub lo: u8,
    pub hi: u8,
    /// code point accumulated so far
    pub cp: u32,
}

#[derive(Clone, Copy, PartialEq, Eq, Debug)]
pub enum Out {
    Pending,
    Char(u32),
    Invalid,
}

/// Is `b` a byte that starts a multi-byte character (C2..=F4)?
pub fn is_lead(b: u8) -> bool {
    0xC2 <= b && b <= 0xF4
}

impl Utf8 {
    pub fn idle(&self) -> bool {
        self.need == 0
    }

    /// Feed one byte.  From the idle state only lead bytes C2..=F4 start a sequence; ASCII
    /// is a character of its own and anything else is invalid.
    pub fn step(&mut self, b: u8) -> Out {
        if self.need == 0 {
            let (need, lo, hi, cp) = match b {
                0x00..=0x7F => return Out::Char(b as u32),
                0xC2..=0xDF => (1, 0x80, 0xBF, (b & 0x1F) as u32),
                0xE0 => (2, 0xA0, 0xBF, 0),
                0xE1..=0xEC | 0xEE..=0xEF => (2, 0x80, 0xBF, (b & 0x0F) as u32),
                0xED => (2, 0x80, 0x9F, 0x0D),
                0xF0 => (3, 0x90, 0xBF, 0),
                0xF1..=0xF3 => (3, 0x80, 0xBF, (b & 0x07) as u32),
                0xF4 => (3, 0x80, 0x8F, 0x04),
                _ => return Out::Invalid,
            };
            *self = Utf8 { need, lo, hi, cp };
            Out::Pending
        } else if self.lo <= b && b <= self.hi {
            let cp = (self.cp << 6) | (b & 0x3F) as u32;
            if self.need == 1 {
                *self = Utf8::default();
                Out::Char(cp)
            } else {
                *self = Utf8 {
                    need: self.need - 1,
                    lo: 0x80,
                    hi: 0xBF,
                    cp,
                };
                Out::Pending
            }
        } else {
            *self = Utf8::default();
            Out::Invalid
        }
    }
}

#[cfg(test)]
mod tests {
    use super::*;

    fn decode(bytes: &[u8]) -> Vec<u32> {
        let mut d = Utf8::default();
        let mut out = vec![];
        for &b in bytes {
            match d.step(b) {
                Out::Pending => {}
                Out::Char(c) => out.push(c),
                Out::Invalid => out.push(0xFFFD),
            }
        }
        out
    }

    #[test]
    fn agrees_with_std_on_all_scalars() {
        for cp in (0..=0x10FFFFu32).filter_map(char::from_u32) {
            let mut buf = [0u8; 4];
            let s = cp.encode_utf8(&mut buf);
            assert_eq!(decode(s.as_bytes()), vec![cp as u32]);
        }
    }

    #[test]
    fn ill_formed() {
        assert_eq!(decode(&[0xDF, 0x7F, 0x41]), vec![0xFFFD, 0x41]);
        assert_eq!(decode(&[0xE0, 0x80]), vec![0xFFFD]);
        assert_eq!(decode(&[0xED, 0xA0]), vec![0xFFFD]);
        assert_eq!(decode(&[0xF4, 0x90]), vec![0xFFFD]);
        assert_eq!(decode(&[0xC0]), vec![0xFFFD]);
    }
}
