//! The fixed part of the xterm 256-colour palette: a 6x6x6 cube with levels
//! 0, 95, 135, 175, 215, 255 at indices 16..=231 and a 24-step grey ramp 8 + 10k at
//! 232..=255 (xterm's 256colres.pl).

pub const CUBE: [u8; 6] = [0, 95, 135, 175, 215, 255];

/// RGB of palette index `i` for `i >= 16`.
pub fn xterm_rgb(i: u8) -> (u8, u8, u8) {
    if i >= 232 {
        let v = 8 + 10 * (i - 232);
        (v, v, v)
    } else {
        let j = i - 16;
        (
            CUBE[(j / 36) as usize],
            CUBE[((j / 6) % 6) as usize],
            CUBE[(j % 6) as usize],
        )
    }
}

/// Inverse of [`xterm_rgb`]: the lowest index in 16..=255 with that colour, if any.
pub fn xterm_index(r: u8, g: u8, b: u8) -> Option<u8> {
    let lvl = |v: u8| -> Option<u8> {
        match v {
            0 => Some(0),
            95 => Some(1),
            135 => Some(2),
            175 => Some(3),
            215 => Some(4),
            255 => Some(5),
            _ => None,
        }
    };
    if let (Some(x), Some(y), Some(z)) = (lvl(r), lvl(g), lvl(b)) {
        return Some(16 + 36 * x + 6 * y + z);
    }
    if r == g && g == b && r >= 8 && (r - 8) % 10 == 0 && (r - 8) / 10 < 24 {
        return Some(232 + (r - 8) / 10);
    }
    None
}

/// The crate's documented metric ("redmean", integer form): with R = r1 + r2,
/// D = (1024 + R)·Δr² + 1024·Δg² + (1534 − R)·Δb²   — over the integers.
/// (The conventional formula weighs green by 4·256 = 1024 when the red/blue weights are
/// (2 + r̄/256)·256 halved; the property is stated relative to the crate's own metric.)
pub fn redmean(c1: (u8, u8, u8), c2: (u8, u8, u8)) -> u64 {
    let r = c1.0 as i64 + c2.0 as i64;
    let dr = c1.0 as i64 - c2.0 as i64;
    let dg = c1.1 as i64 - c2.1 as i64;
    let db = c1.2 as i64 - c2.2 as i64;
    ((1024 + r) * dr * dr + 1024 * dg * dg + (1534 - r) * db * db) as u64
}

#[cfg(test)]
mod tests {
    use super::*;
    #[test]
    fn inverse() {
        for i in 16..=255u8 {
            let (r, g, b) = xterm_rgb(i);
            // greys 0x.. that coincide with cube entries resolve to the cube (lower index)
            let j = xterm_index(r, g, b).unwrap();
            assert!(j <= i);
            assert_eq!(xterm_rgb(j), (r, g, b));
        }
        assert_eq!(xterm_rgb(16), (0, 0, 0));
        assert_eq!(xterm_rgb(231), (255, 255, 255));
        assert_eq!(xterm_rgb(232), (8, 8, 8));
        assert_eq!(xterm_rgb(255), (238, 238, 238));
        assert_eq!(xterm_rgb(196), (255, 0, 0));
    }
}
