//! SGR ("select graphic rendition") interpretation per ECMA-48 §8.3.117 and xterm's
//! ctlseqs: a parameter list with ';' groups and ':' sub-parameters is applied left to right
//! to an abstract style.  Written from the standards; no reference to the crates' code.

pub const BOLD: u16 = 1 << 0;
pub const DIMMED: u16 = 1 << 1;
pub const ITALIC: u16 = 1 << 2;
pub const UNDERLINE: u16 = 1 << 3;
pub const DOUBLE_UNDERLINE: u16 = 1 << 4;
pub const CURLY_UNDERLINE: u16 = 1 << 5;
pub const DOTTED_UNDERLINE: u16 = 1 << 6;
pub const DASHED_UNDERLINE: u16 = 1 << 7;
pub const BLINK: u16 = 1 << 8;
pub const INVERT: u16 = 1 << 9;
pub const HIDDEN: u16 = 1 << 10;
pub const STRIKETHROUGH: u16 = 1 << 11;
pub const ALL_UNDERLINES: u16 =
    UNDERLINE | DOUBLE_UNDERLINE | CURLY_UNDERLINE | DOTTED_UNDERLINE | DASHED_UNDERLINE;

#[derive(Clone, Copy, PartialEq, Eq, Debug)]
pub enum Col {
    /// 16-colour palette: 0..=7 normal, 8..=15 bright
    Ansi(u8),
    /// 256-colour palette index
    Idx(u8),
    Rgb(u8, u8, u8),
}

#[derive(Clone, Copy, PartialEq, Eq, Debug, Default)]
pub struct Sty {
    pub fg: Option<Col>,
    pub bg: Option<Col>,
    pub ul: Option<Col>,
    pub eff: u16,
}

/// Which part of the SGR repertoire a given consumer is specified for.  Codes outside it
/// make the interpreter answer `None` ("the property says nothing about this input").
#[derive(Clone, Copy, PartialEq, Eq, Debug)]
pub struct Dialect {
    /// 5 / 6 (blink)
    pub blink: bool,
    /// 22..=29 (attribute resets) and 59
    pub resets: bool,
    /// 21 = double underline
    pub double21: bool,
    /// ':' sub-parameter forms (4:n, 38:5:n, 38:2:r:g:b)
    pub colon: bool,
    /// the five underline kinds are independent flags (the style type's view; needed to
    /// read back what the style renderer emits).  When false, an underline code applied
    /// while a *different* underline kind is in effect answers `None`, because the flag view
    /// and the one-kind-at-a-time terminal view disagree about the result.
    pub underline_flags: bool,
}

/// What the styled-run extractor is specified for (C07).
pub const EXTRACT: Dialect = Dialect {
    blink: false,
    resets: false,
    double21: true,
    colon: true,
    underline_flags: false,
};
/// What the style renderer emits (C05, C17): everything, flags view.
pub const RENDER: Dialect = Dialect {
    blink: true,
    resets: true,
    double21: true,
    colon: true,
    underline_flags: true,
};
/// LS_COLORS (C12): ';' lists only.
pub const LS: Dialect = Dialect {
    blink: true,
    resets: true,
    double21: false,
    colon: false,
    underline_flags: true,
};

fn set_underline(s: &mut Sty, kind: u16, d: Dialect) -> bool {
    if d.underline_flags {
        s.eff |= kind;
        true
    } else {
        let cur = s.eff & ALL_UNDERLINES;
        if cur != 0 && cur != kind {
            return false;
        }
        s.eff |= kind;
        true
    }
}

fn clear_underline(s: &mut Sty, d: Dialect) -> bool {
    if d.underline_flags {
        s.eff &= !ALL_UNDERLINES;
        true
    } else {
        let cur = s.eff & ALL_UNDERLINES;
        if cur != 0 && cur != UNDERLINE {
            return false;
        }
        s.eff &= !ALL_UNDERLINES;
        true
    }
}

fn set_slot(s: &mut Sty, slot: u16, c: Option<Col>) {
    match slot {
        38 => s.fg = c,
        48 => s.bg = c,
        _ => s.ul = c,
    }
}

/// Apply the parameter list `vals[..n]` (with `sub[i]` = value `i` is joined to value `i-1`
/// by ':') to `s`.  `None`: the list is not well formed or leaves the dialect.
///
/// All loops run a constant `K` times (guards inside), so a bounded model checker unrolls
/// them exactly `K` times whatever `n` is.
pub fn apply<const K: usize>(
    mut s: Sty,
    vals: &[u16; K],
    sub: &[bool; K],
    n: usize,
    d: Dialect,
) -> Option<Sty> {
    let at = |i: usize| -> u16 {
        if i < K {
            vals[i]
        } else {
            0
        }
    };
    // is value i present and the start of a ';' group?
    let starts = |i: usize| -> bool { i < n && i < K && !sub[i] };
    let joined = |i: usize| -> bool { i < n && i < K && sub[i] };
    let mut i = 0usize;
    let mut step = 0usize;
    while step < K {
        step += 1;
        if i >= n {
            break;
        }
        // extent of the ':' group starting at i
        let mut len = 1usize;
        let mut k = 1usize;
        let mut open = true;
        while k < K {
            if open && joined(i + k) {
                len += 1;
            } else {
                open = false;
            }
            k += 1;
        }
        let c = at(i);
        if len > 1 {
            if !d.colon {
                return None;
            }
            match (c, len) {
                (4, 2) => {
                    let ok = match at(i + 1) {
                        0 => clear_underline(&mut s, d),
                        1 => set_underline(&mut s, UNDERLINE, d),
                        2 => set_underline(&mut s, DOUBLE_UNDERLINE, d),
                        3 => set_underline(&mut s, CURLY_UNDERLINE, d),
                        4 => set_underline(&mut s, DOTTED_UNDERLINE, d),
                        5 => set_underline(&mut s, DASHED_UNDERLINE, d),
                        _ => false,
                    };
                    if !ok {
                        return None;
                    }
                }
                (38 | 48 | 58, 3) if at(i + 1) == 5 && at(i + 2) <= 255 => {
                    set_slot(&mut s, c, Some(Col::Idx(at(i + 2) as u8)));
                }
                (38 | 48 | 58, 5)
                    if at(i + 1) == 2 && at(i + 2) <= 255 && at(i + 3) <= 255 && at(i + 4) <= 255 =>
                {
                    set_slot(
                        &mut s,
                        c,
                        Some(Col::Rgb(at(i + 2) as u8, at(i + 3) as u8, at(i + 4) as u8)),
                    );
                }
                _ => return None,
            }
            i += len;
            continue;
        }
        // a single value
        match c {
            0 => s = Sty::default(),
            1 => s.eff |= BOLD,
            2 => s.eff |= DIMMED,
            3 => s.eff |= ITALIC,
            4 => {
                if !set_underline(&mut s, UNDERLINE, d) {
                    return None;
                }
            }
            5 | 6 => {
                if !d.blink {
                    return None;
                }
                s.eff |= BLINK;
            }
            7 => s.eff |= INVERT,
            8 => s.eff |= HIDDEN,
            9 => s.eff |= STRIKETHROUGH,
            21 => {
                if !d.double21 {
                    return None;
                }
                if !set_underline(&mut s, DOUBLE_UNDERLINE, d) {
                    return None;
                }
            }
            22..=25 | 27..=29 | 59 => {
                if !d.resets {
                    return None;
                }
                match c {
                    22 => s.eff &= !(BOLD | DIMMED),
                    23 => s.eff &= !ITALIC,
                    24 => {
                        if !clear_underline(&mut s, d) {
                            return None;
                        }
                    }
                    25 => s.eff &= !BLINK,
                    27 => s.eff &= !INVERT,
                    28 => s.eff &= !HIDDEN,
                    29 => s.eff &= !STRIKETHROUGH,
                    _ => s.ul = None,
                }
            }
            30..=37 => s.fg = Some(Col::Ansi((c - 30) as u8)),
            39 => s.fg = None,
            40..=47 => s.bg = Some(Col::Ansi((c - 40) as u8)),
            49 => s.bg = None,
            90..=97 => s.fg = Some(Col::Ansi((c - 90 + 8) as u8)),
            100..=107 => s.bg = Some(Col::Ansi((c - 100 + 8) as u8)),
            38 | 48 | 58 => {
                // operands follow as separate ';' parameters
                if starts(i + 1)
                    && starts(i + 2)
                    && !joined(i + 3)
                    && at(i + 1) == 5
                    && at(i + 2) <= 255
                {
                    set_slot(&mut s, c, Some(Col::Idx(at(i + 2) as u8)));
                    i += 3;
                    continue;
                }
                if starts(i + 1)
                    && starts(i + 2)
                    && starts(i + 3)
                    && starts(i + 4)
                    && !joined(i + 5)
                    && at(i + 1) == 2
                    && at(i + 2) <= 255
                    && at(i + 3) <= 255
                    && at(i + 4) <= 255
                {
                    set_slot(
                        &mut s,
                        c,
                        Some(Col::Rgb(at(i + 2) as u8, at(i + 3) as u8, at(i + 4) as u8)),
                    );
                    i += 5;
                    continue;
                }
                return None;
            }
            // no meaning assigned, or no representation in the style: changes nothing
            _ => {}
        }
        i += 1;
    }
    Some(s)
}

/// Byte-level front end: `bytes[..len]` must be a concatenation of complete
/// `ESC [ <digits ; :>* m` sequences (leading zeros allowed, empty parameter = 0);
/// interprets them from `start`.  `None` if anything else occurs or a sequence has more
/// than `K` values.
pub fn interpret_bytes<const K: usize>(
    start: Sty,
    bytes: &[u8],
    len: usize,
    d: Dialect,
) -> Option<Sty> {
    let mut s = start;
    let mut i = 0;
    while i < len {
        if bytes[i] != 0x1B || i + 1 >= len || bytes[i + 1] != b'[' {
            return None;
        }
        i += 2;
        let mut vals = [0u16; K];
        let mut sub = [false; K];
        let mut n = 0usize;
        let mut cur: u32 = 0;
        let mut cur_sub = false;
        loop {
            if i >= len {
                return None;
            }
            let b = bytes[i];
            i += 1;
            match b {
                b'0'..=b'9' => {
                    cur = cur * 10 + (b - b'0') as u32;
                    if cur > 65535 {
                        cur = 65535;
                    }
                }
                b';' | b':' | b'm' => {
                    if n == K {
                        return None;
                    }
                    vals[n] = cur as u16;
                    sub[n] = cur_sub;
                    n += 1;
                    cur = 0;
                    cur_sub = b == b':';
                    if b == b'm' {
                        break;
                    }
                }
                _ => return None,
            }
        }
        s = apply(s, &vals, &sub, n, d)?;
    }
    Some(s)
}

/// Decimal rendering of an SGR code without leading zeros (native convenience for tests).
#[cfg(test)]
mod tests {
    use super::*;

    fn run(s: &str) -> Option<Sty> {
        interpret_bytes::<8>(Sty::default(), s.as_bytes(), s.len(), RENDER)
    }

    #[test]
    fn basics() {
        assert_eq!(run("\x1b[1m").unwrap().eff, BOLD);
        assert_eq!(run("\x1b[m\x1b[4;1m").unwrap().eff, BOLD | UNDERLINE);
        assert_eq!(run("\x1b[38;5;196m").unwrap().fg, Some(Col::Idx(196)));
        assert_eq!(run("\x1b[48:2:1:2:3m").unwrap().bg, Some(Col::Rgb(1, 2, 3)));
        assert_eq!(run("\x1b[58;2;1;2;3;1m").unwrap().ul, Some(Col::Rgb(1, 2, 3)));
        assert_eq!(run("\x1b[58;2;1;2;3;1m").unwrap().eff, BOLD);
        assert_eq!(run("\x1b[94m").unwrap().fg, Some(Col::Ansi(12)));
        assert_eq!(run("\x1b[031;1m\x1b[0m"), Some(Sty::default()));
        assert_eq!(run("\x1b[4:3m").unwrap().eff, CURLY_UNDERLINE);
        assert_eq!(run("\x1b[38;5m"), None);
        assert_eq!(run("x"), None);
    }
}

/// Incremental byte-level front end: feed the rendered bytes one at a time (no buffer of
/// the whole text is needed).  Accepts only a concatenation of complete
/// `ESC [ <digits ; :>* m` sequences with at most `K` values each.
#[derive(Clone, Copy, Debug)]
pub struct SgrStream<const K: usize> {
    pub sty: Sty,
    pub d: Dialect,
    /// 0: between sequences, 1: after ESC, 2: inside the parameter string
    pub stage: u8,
    pub vals: [u16; K],
    pub sub: [bool; K],
    pub n: usize,
    pub cur: u32,
    pub cur_sub: bool,
    /// something other than pure, well-formed SGR was seen
    pub bad: bool,
    /// number of complete sequences seen
    pub seqs: usize,
}

impl<const K: usize> SgrStream<K> {
    pub fn new(start: Sty, d: Dialect) -> Self {
        SgrStream {
            sty: start,
            d,
            stage: 0,
            vals: [0; K],
            sub: [false; K],
            n: 0,
            cur: 0,
            cur_sub: false,
            bad: false,
            seqs: 0,
        }
    }

    pub fn feed(&mut self, b: u8) {
        match self.stage {
            0 => {
                if b == 0x1B {
                    self.stage = 1;
                } else {
                    self.bad = true;
                }
            }
            1 => {
                if b == b'[' {
                    self.stage = 2;
                    self.n = 0;
                    self.cur = 0;
                    self.cur_sub = false;
                } else {
                    self.bad = true;
                }
            }
            _ => match b {
                b'0'..=b'9' => {
                    self.cur = self.cur * 10 + (b - b'0') as u32;
                    if self.cur > 65535 {
                        self.cur = 65535;
                    }
                }
                b';' | b':' | b'm' => {
                    if self.n >= K {
                        self.bad = true;
                    } else {
                        self.vals[self.n] = self.cur as u16;
                        self.sub[self.n] = self.cur_sub;
                        self.n += 1;
                    }
                    self.cur = 0;
                    self.cur_sub = b == b':';
                    if b == b'm' {
                        match apply(self.sty, &self.vals, &self.sub, self.n, self.d) {
                            Some(s) => self.sty = s,
                            None => self.bad = true,
                        }
                        self.stage = 0;
                        self.seqs += 1;
                    }
                }
                _ => self.bad = true,
            },
        }
    }

    /// The style in effect after everything fed so far, if it was pure SGR and complete.
    pub fn finish(&self) -> Option<Sty> {
        if self.bad || self.stage != 0 {
            None
        } else {
            Some(self.sty)
        }
    }
}

/// Tokeniser only: splits `ESC [ <digits ; :>* m` sequences into parameter lists without
/// interpreting them (cheap per byte; the caller applies a completed list once).
#[derive(Clone, Copy, Debug)]
pub struct SgrTok<const K: usize> {
    /// 0: between sequences, 1: after ESC, 2: inside the parameter string
    pub stage: u8,
    pub vals: [u16; K],
    pub sub: [bool; K],
    pub n: usize,
    pub cur: u32,
    pub cur_sub: bool,
}

#[derive(Clone, Copy, PartialEq, Eq, Debug)]
pub enum Tok {
    More,
    /// a sequence just ended; `vals[..n]` / `sub[..n]` hold its parameters
    Complete,
    /// not SGR, or more than `K` values
    Bad,
}

impl<const K: usize> SgrTok<K> {
    pub fn new() -> Self {
        SgrTok {
            stage: 0,
            vals: [0; K],
            sub: [false; K],
            n: 0,
            cur: 0,
            cur_sub: false,
        }
    }

    pub fn idle(&self) -> bool {
        self.stage == 0
    }

    pub fn feed(&mut self, b: u8) -> Tok {
        match self.stage {
            0 => {
                if b == 0x1B {
                    self.stage = 1;
                    Tok::More
                } else {
                    Tok::Bad
                }
            }
            1 => {
                if b == b'[' {
                    self.stage = 2;
                    self.n = 0;
                    self.cur = 0;
                    self.cur_sub = false;
                    Tok::More
                } else {
                    Tok::Bad
                }
            }
            _ => match b {
                b'0'..=b'9' => {
                    self.cur = self.cur * 10 + (b - b'0') as u32;
                    if self.cur > 65535 {
                        self.cur = 65535;
                    }
                    Tok::More
                }
                b';' | b':' | b'm' => {
                    if self.n >= K {
                        return Tok::Bad;
                    }
                    self.vals[self.n] = self.cur as u16;
                    self.sub[self.n] = self.cur_sub;
                    self.n += 1;
                    self.cur = 0;
                    self.cur_sub = b == b':';
                    if b == b'm' {
                        self.stage = 0;
                        Tok::Complete
                    } else {
                        Tok::More
                    }
                }
                _ => Tok::Bad,
            },
        }
    }
}
