//! Paul Williams' DEC ANSI parser (https://vt100.net/emu/dec_ansi_parser), written as
//! `match` arms per state over byte ranges, plus the deviations the parser crate documents:
//!
//! * UTF-8 text: in Ground the bytes C2..=F4 start a multi-byte character that is decoded
//!   out of band ([`crate::utf8`]); no escape processing happens until it completes.
//! * OSC strings may be terminated by BEL and collect 20..=FF (UTF-8 payloads).
//! * 7-bit controls only: the 8-bit C1 introducers (90, 98, 9B, 9D..9F) do nothing; in
//!   Ground 80..=8F, 91..=9A and 9C are executed; 9C terminates DCS/SOS/PM/APC strings;
//!   every other 8-bit byte outside Ground/OSC is ignored.
//! * ':' separates sub-parameters (Williams sends it to csi-ignore).
//!
//! Limits: 32 parameter values (one more sets `ignore`), 2 intermediates (a third sets
//! `ignore`), 16 OSC fields, values saturate at 65535.

use crate::utf8::{Out, Utf8};

#[derive(Clone, Copy, PartialEq, Eq, Debug)]
pub enum St {
    Ground,
    Escape,
    EscapeIntermediate,
    CsiEntry,
    CsiParam,
    CsiIntermediate,
    CsiIgnore,
    DcsEntry,
    DcsParam,
    DcsIntermediate,
    DcsPassthrough,
    DcsIgnore,
    OscString,
    SosPmApcString,
    Utf8,
}

pub const ALL_STATES: [St; 15] = [
    St::Ground,
    St::Escape,
    St::EscapeIntermediate,
    St::CsiEntry,
    St::CsiParam,
    St::CsiIntermediate,
    St::CsiIgnore,
    St::DcsEntry,
    St::DcsParam,
    St::DcsIntermediate,
    St::DcsPassthrough,
    St::DcsIgnore,
    St::OscString,
    St::SosPmApcString,
    St::Utf8,
];

/// What the state machine does with the byte itself (entry/exit actions are implied by
/// the state change).
#[derive(Clone, Copy, PartialEq, Eq, Debug)]
pub enum Act {
    /// nothing observable (Williams' "ignore" and unlisted bytes alike)
    None,
    Print,
    Execute,
    Collect,
    Param,
    EscDispatch,
    CsiDispatch,
    Put,
    OscPut,
    BeginUtf8,
}

#[inline]
fn c0(b: u8) -> bool {
    matches!(b, 0x00..=0x17 | 0x19 | 0x1C..=0x1F)
}

/// One row of the diagram.  `Some(s)` is a transition (exit action of the old state,
/// entry action of `s`, even when `s` equals the old state); `None` stays put.
/// Never called for `St::Utf8`.
pub fn transition(st: St, b: u8) -> (Option<St>, Act) {
    // "anywhere" transitions
    match b {
        0x18 | 0x1A => return (Some(St::Ground), Act::Execute),
        0x1B => return (Some(St::Escape), Act::None),
        _ => {}
    }
    match st {
        St::Ground => match b {
            _ if c0(b) => (None, Act::Execute),
            0x20..=0x7F => (None, Act::Print),
            0x80..=0x8F | 0x91..=0x9A | 0x9C => (None, Act::Execute),
            0xC2..=0xF4 => (Some(St::Utf8), Act::BeginUtf8),
            _ => (None, Act::None),
        },
        St::Escape => match b {
            _ if c0(b) => (None, Act::Execute),
            0x20..=0x2F => (Some(St::EscapeIntermediate), Act::Collect),
            0x50 => (Some(St::DcsEntry), Act::None),
            0x58 | 0x5E | 0x5F => (Some(St::SosPmApcString), Act::None),
            0x5B => (Some(St::CsiEntry), Act::None),
            0x5D => (Some(St::OscString), Act::None),
            0x30..=0x7E => (Some(St::Ground), Act::EscDispatch),
            _ => (None, Act::None),
        },
        St::EscapeIntermediate => match b {
            _ if c0(b) => (None, Act::Execute),
            0x20..=0x2F => (None, Act::Collect),
            0x30..=0x7E => (Some(St::Ground), Act::EscDispatch),
            _ => (None, Act::None),
        },
        St::CsiEntry => match b {
            _ if c0(b) => (None, Act::Execute),
            0x20..=0x2F => (Some(St::CsiIntermediate), Act::Collect),
            0x30..=0x3B => (Some(St::CsiParam), Act::Param),
            0x3C..=0x3F => (Some(St::CsiParam), Act::Collect),
            0x40..=0x7E => (Some(St::Ground), Act::CsiDispatch),
            _ => (None, Act::None),
        },
        St::CsiParam => match b {
            _ if c0(b) => (None, Act::Execute),
            0x20..=0x2F => (Some(St::CsiIntermediate), Act::Collect),
            0x30..=0x3B => (None, Act::Param),
            0x3C..=0x3F => (Some(St::CsiIgnore), Act::None),
            0x40..=0x7E => (Some(St::Ground), Act::CsiDispatch),
            _ => (None, Act::None),
        },
        St::CsiIntermediate => match b {
            _ if c0(b) => (None, Act::Execute),
            0x20..=0x2F => (None, Act::Collect),
            0x30..=0x3F => (Some(St::CsiIgnore), Act::None),
            0x40..=0x7E => (Some(St::Ground), Act::CsiDispatch),
            _ => (None, Act::None),
        },
        St::CsiIgnore => match b {
            _ if c0(b) => (None, Act::Execute),
            0x40..=0x7E => (Some(St::Ground), Act::None),
            _ => (None, Act::None),
        },
        St::DcsEntry => match b {
            0x20..=0x2F => (Some(St::DcsIntermediate), Act::Collect),
            0x30..=0x3B => (Some(St::DcsParam), Act::Param),
            0x3C..=0x3F => (Some(St::DcsParam), Act::Collect),
            0x40..=0x7E => (Some(St::DcsPassthrough), Act::None),
            _ => (None, Act::None),
        },
        St::DcsParam => match b {
            0x20..=0x2F => (Some(St::DcsIntermediate), Act::Collect),
            0x30..=0x3B => (None, Act::Param),
            0x3C..=0x3F => (Some(St::DcsIgnore), Act::None),
            0x40..=0x7E => (Some(St::DcsPassthrough), Act::None),
            _ => (None, Act::None),
        },
        St::DcsIntermediate => match b {
            0x20..=0x2F => (None, Act::Collect),
            0x30..=0x3F => (Some(St::DcsIgnore), Act::None),
            0x40..=0x7E => (Some(St::DcsPassthrough), Act::None),
            _ => (None, Act::None),
        },
        St::DcsPassthrough => match b {
            _ if c0(b) => (None, Act::Put),
            0x20..=0x7E => (None, Act::Put),
            0x9C => (Some(St::Ground), Act::None),
            _ => (None, Act::None),
        },
        St::DcsIgnore | St::SosPmApcString => match b {
            0x9C => (Some(St::Ground), Act::None),
            _ => (None, Act::None),
        },
        St::OscString => match b {
            0x07 => (Some(St::Ground), Act::None),
            0x20..=0xFF => (None, Act::OscPut),
            _ => (None, Act::None),
        },
        St::Utf8 => (None, Act::None),
    }
}

pub const MAX_PARAMS: usize = 32;
pub const MAX_INTERMEDIATES: usize = 2;
pub const MAX_OSC_FIELDS: usize = 16;

/// One callback the parser is expected to make.  Dispatch arguments (parameters,
/// intermediates, ignore flag, OSC fields) are read from the model's state *after* the step.
#[derive(Clone, Copy, PartialEq, Eq, Debug)]
pub enum Ev {
    Print(u32),
    Execute(u8),
    Hook(u8),
    Put(u8),
    Unhook,
    OscDispatch { bell: bool },
    CsiDispatch(u8),
    EscDispatch(u8),
}

#[derive(Clone, Copy, PartialEq, Eq, Debug)]
pub struct Evs {
    pub e: [Option<Ev>; 3],
}

impl Evs {
    fn new() -> Self {
        Evs { e: [None; 3] }
    }
    fn push(&mut self, ev: Ev) {
        if self.e[0].is_none() {
            self.e[0] = Some(ev);
        } else if self.e[1].is_none() {
            self.e[1] = Some(ev);
        } else {
            self.e[2] = Some(ev);
        }
    }
    pub fn len(&self) -> usize {
        self.e.iter().filter(|e| e.is_some()).count()
    }
}

/// Complete model state.  `N` is the capacity of the OSC payload buffer the harness
/// allows (the heap build has no limit; the fixed-buffer build truncates at `osc_cap`).
#[derive(Clone, Copy, PartialEq, Eq, Debug)]
pub struct Vt<const N: usize> {
    pub st: St,
    pub inter: [u8; MAX_INTERMEDIATES],
    pub n_inter: usize,
    /// parameter values received so far (completed ones)
    pub vals: [u16; MAX_PARAMS],
    /// `sub[i]`: value `i` is attached to value `i-1` by ':'
    pub sub: [bool; MAX_PARAMS],
    pub n: usize,
    /// value being accumulated, and whether it follows a ':'
    pub cur: u16,
    pub cur_sub: bool,
    pub ignore: bool,
    /// OSC payload without the separators that ended a field
    pub osc: [u8; N],
    pub osc_len: usize,
    /// end offsets of the completed OSC fields
    pub cuts: [usize; MAX_OSC_FIELDS],
    pub n_cuts: usize,
    /// `Some(cap)`: payload bytes beyond `cap` (and separators arriving once it is full)
    /// are dropped: the documented limit of the fixed-buffer build
    pub osc_cap: Option<usize>,
    pub utf8: Utf8,
}

impl<const N: usize> Vt<N> {
    pub fn new() -> Self {
        Vt {
            st: St::Ground,
            inter: [0; MAX_INTERMEDIATES],
            n_inter: 0,
            vals: [0; MAX_PARAMS],
            sub: [false; MAX_PARAMS],
            n: 0,
            cur: 0,
            cur_sub: false,
            ignore: false,
            osc: [0; N],
            osc_len: 0,
            cuts: [0; MAX_OSC_FIELDS],
            n_cuts: 0,
            osc_cap: None,
            utf8: Utf8::default(),
        }
    }

    fn clear(&mut self) {
        self.n_inter = 0;
        self.n = 0;
        self.cur = 0;
        self.cur_sub = false;
        self.ignore = false;
    }

    fn push_value(&mut self) {
        self.vals[self.n] = self.cur;
        self.sub[self.n] = self.cur_sub;
        self.n += 1;
    }

    /// The pending value is closed by a dispatch; one value too many sets `ignore`.
    fn finish_params(&mut self) {
        if self.n == MAX_PARAMS {
            self.ignore = true;
        } else {
            self.push_value();
            self.cur_sub = false;
        }
    }

    fn osc_put(&mut self, b: u8) {
        if let Some(cap) = self.osc_cap {
            if self.osc_len >= cap {
                return;
            }
        }
        if b == b';' {
            if self.n_cuts < MAX_OSC_FIELDS {
                self.cuts[self.n_cuts] = self.osc_len;
                self.n_cuts += 1;
            }
        } else if self.n_cuts < MAX_OSC_FIELDS {
            // bytes after the 16th field are not part of any field: nothing to remember
            if self.osc_len < N {
                self.osc[self.osc_len] = b;
            }
            self.osc_len += 1;
        }
    }

    fn osc_end(&mut self) {
        if self.n_cuts < MAX_OSC_FIELDS {
            self.cuts[self.n_cuts] = self.osc_len;
            self.n_cuts += 1;
        }
    }

    /// Number of OSC fields a dispatch reports (valid right after an `OscDispatch` event).
    pub fn osc_fields(&self) -> usize {
        self.n_cuts
    }

    /// Byte range of OSC field `i` inside `osc`.
    pub fn osc_field(&self, i: usize) -> (usize, usize) {
        let begin = if i == 0 { 0 } else { self.cuts[i - 1] };
        (begin, self.cuts[i])
    }

    pub fn step(&mut self, b: u8) -> Evs {
        let mut evs = Evs::new();
        if self.st == St::Utf8 {
            match self.utf8.step(b) {
                Out::Pending => {}
                Out::Char(c) => {
                    evs.push(Ev::Print(c));
                    self.st = St::Ground;
                }
                Out::Invalid => {
                    evs.push(Ev::Print(0xFFFD));
                    self.st = St::Ground;
                }
            }
            return evs;
        }
        let (next, act) = transition(self.st, b);
        // exit action
        if next.is_some() {
            match self.st {
                St::DcsPassthrough => evs.push(Ev::Unhook),
                St::OscString => {
                    self.osc_end();
                    evs.push(Ev::OscDispatch { bell: b == 0x07 });
                }
                _ => {}
            }
        }
        // transition action
        match act {
            Act::None => {}
            Act::Print => evs.push(Ev::Print(b as u32)),
            Act::Execute => evs.push(Ev::Execute(b)),
            Act::Collect => {
                if self.n_inter == MAX_INTERMEDIATES {
                    self.ignore = true;
                } else {
                    self.inter[self.n_inter] = b;
                    self.n_inter += 1;
                }
            }
            Act::Param => {
                if self.n == MAX_PARAMS {
                    self.ignore = true;
                } else if b == b';' {
                    self.push_value();
                    self.cur = 0;
                    self.cur_sub = false;
                } else if b == b':' {
                    self.push_value();
                    self.cur = 0;
                    self.cur_sub = true;
                } else {
                    let v = self.cur as u32 * 10 + (b - b'0') as u32;
                    self.cur = if v > 65535 { 65535 } else { v as u16 };
                }
            }
            Act::EscDispatch => evs.push(Ev::EscDispatch(b)),
            Act::CsiDispatch => {
                self.finish_params();
                evs.push(Ev::CsiDispatch(b));
            }
            Act::Put => evs.push(Ev::Put(b)),
            Act::OscPut => self.osc_put(b),
            Act::BeginUtf8 => {
                self.utf8 = Utf8::default();
                let _ = self.utf8.step(b);
            }
        }
        // entry action
        if let Some(next) = next {
            match next {
                St::Escape | St::CsiEntry | St::DcsEntry => self.clear(),
                St::DcsPassthrough => {
                    self.finish_params();
                    evs.push(Ev::Hook(b));
                }
                St::OscString => {
                    self.osc_len = 0;
                    self.n_cuts = 0;
                }
                _ => {}
            }
            self.st = next;
        }
        evs
    }
}
