//! Reference models, written from the specifications (Paul Williams' DEC ANSI parser,
//! ECMA-48 / xterm SGR, utf8parse's documented behaviour, the xterm-256 palette), not from
//! the code under test.  Plain Rust, no dependencies, shared by the Kani harness crates and
//! by native tests.
#![allow(clippy::all)]

pub mod sgr;
pub mod strip;
pub mod utf8;
pub mod vt;
pub mod xterm;
