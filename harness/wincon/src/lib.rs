//! C18: the legacy-console stream.  `crates/anstream/src/wincon.rs` is only built on
//! Windows; its platform-independent source is compiled into this crate from /repo's
//! working tree, with small stand-ins for the three `crate::` paths it uses.
#![allow(dead_code, unused_imports, clippy::all, missing_docs, unreachable_pub)]

/// `crate::adapter::WinconBytes`: the real styled-run extractor
pub mod adapter {
    pub use anstream::adapter::WinconBytes;
}

/// `crate::fmt::Adapter`: the real file
#[path = "/repo/crates/anstream/src/fmt.rs"]
pub mod fmt;

/// `crate::stream::{AsLockedWrite, IsTerminal}`: on Windows the locked writer of a raw
/// stream is an `anstyle_wincon::WinconStream`; that bound is all the stream relies on.
pub mod stream {
    pub trait IsTerminal {
        fn is_terminal(&self) -> bool;
    }
    pub trait AsLockedWrite {
        type Write<'w>: anstyle_wincon::WinconStream + std::io::Write + 'w
        where
            Self: 'w;
        fn as_locked_write(&mut self) -> Self::Write<'_>;
    }
}

pub mod console {
    include!("/repo/crates/anstream/src/wincon.rs");

    #[cfg(all(kani, feature = "c18"))]
    mod harness;
}
