//! C18: the legacy-console stream.  `crates/anstream/src/wincon.rs` is only built on
//! Windows; its platform-independent source is compiled into this crate from /repo's
//! working tree, with small stand-ins for the three `crate::` paths it uses.
#![allow(dead_code, unused_imports, clippy::all, missing_docs, unreachable_pub)]

/// `crate::adapter::WinconBytes`: the real styled-run extractor
#[cfg(not(feature = "scripted_runs"))]
pub mod adapter {
    pub use anstream::adapter::WinconBytes;
}

/// Assume-guarantee split (feature `scripted_runs`): the extractor is replaced by a script
/// of styled runs chosen by the harness, so the solver explores the stream's own code
/// (colour capping, write loops, error paths) over ARBITRARY styles without paying for the
/// escape parser.  What the real extractor yields for an input is property C07.
#[cfg(feature = "scripted_runs")]
pub mod adapter {
    #[derive(Default, Clone, Debug, PartialEq, Eq)]
    pub struct WinconBytes {
        pub runs: [(anstyle::Style, &'static str); 2],
        pub n: usize,
        /// how many times extraction was started (one per write-family call)
        pub started: usize,
    }
    impl WinconBytes {
        pub fn new() -> Self {
            Default::default()
        }
        pub fn extract_next<'s>(&'s mut self, _bytes: &'s [u8]) -> WinconBytesIter<'s> {
            self.started += 1;
            WinconBytesIter { st: self, i: 0 }
        }
    }
    pub struct WinconBytesIter<'s> {
        st: &'s mut WinconBytes,
        i: usize,
    }
    impl Iterator for WinconBytesIter<'_> {
        type Item = (anstyle::Style, String);
        fn next(&mut self) -> Option<Self::Item> {
            if self.i < self.st.n && self.i < 2 {
                let (s, t) = self.st.runs[self.i];
                self.i += 1;
                Some((s, String::from(t)))
            } else {
                None
            }
        }
    }
}

/// `crate::fmt::Adapter`: the real file
#[path = "/repo/crates/anstream/src/fmt.rs"]
pub mod fmt;

/// `crate::stream::{AsLockedWrite, IsTerminal}`: on Windows the locked writer of a raw
/// stream is an `anstyle_wincon::WinconStream`; that bound is all the stream relies on.
pub mod stream {
    pub trait IsTerminal {
        fn is_terminal(&self) -> bool;
    }
    pub trait AsLockedWrite {
        type Write<'w>: anstyle_wincon::WinconStream + std::io::Write + 'w
        where
            Self: 'w;
        fn as_locked_write(&mut self) -> Self::Write<'_>;
    }
    // the included file's own #[cfg(test)] module (compiled when a counterexample is
    // replayed natively) drives the stream over a Vec<u8>
    impl IsTerminal for Vec<u8> {
        fn is_terminal(&self) -> bool {
            false
        }
    }
    impl AsLockedWrite for Vec<u8> {
        type Write<'w> = &'w mut Vec<u8>;
        fn as_locked_write(&mut self) -> Self::Write<'_> {
            self
        }
    }
}

pub mod console {
    include!("/repo/crates/anstream/src/wincon.rs");

    #[cfg(all(kani, feature = "c18", not(feature = "scripted_runs")))]
    mod harness;
    #[cfg(all(kani, feature = "c18"))]
    mod rec;
    #[cfg(all(kani, feature = "c18", feature = "scripted_runs"))]
    mod scripted;
}
