//! C18, assume-guarantee half: the stream's own code over a harness-chosen script of styled
//! runs (see `crate::adapter` under feature `scripted_runs`).  Styles are fully symbolic, so
//! the colour reduction is exercised inside the write loops for every fg/bg combination.
use super::rec::*;
use super::*;
use anstyle::{Ansi256Color, AnsiColor, Color, RgbColor, Style};

fn any_color() -> Option<Color> {
    let k: u8 = kani::any();
    let i: u8 = kani::any();
    match k % 4 {
        0 => None,
        1 => {
            kani::assume(i < 16);
            Some(Color::Ansi(Ansi256Color(i).into_ansi().unwrap()))
        }
        2 => Some(Color::Ansi256(Ansi256Color(i))),
        _ => Some(Color::Rgb(RgbColor(i, kani::any(), kani::any()))),
    }
}

/// the 16-colour reduction as the property states it
fn want_color(c: Option<Color>) -> Option<u8> {
    match c {
        Some(Color::Ansi(a)) => Some(ansi_index(a)),
        Some(Color::Ansi256(x)) if x.0 < 16 => Some(x.0),
        _ => None,
    }
}

struct Runs {
    fg: [Option<Color>; 2],
    bg: [Option<Color>; 2],
    text: [&'static str; 2],
    n: usize,
}

/// Two runs "ab", "c" with symbolic styles (effects and underline colour are symbolic too:
/// the console stream must ignore them); the number of runs (0..=2) is symbolic.
fn any_runs() -> (crate::adapter::WinconBytes, Runs) {
    let fg = [any_color(), any_color()];
    let bg = [any_color(), any_color()];
    let text = ["ab", "c"];
    let n: usize = kani::any();
    kani::assume(n <= 2);
    let mut st = crate::adapter::WinconBytes::new();
    let mut i = 0;
    while i < 2 {
        let mut s = Style::new().fg_color(fg[i]).bg_color(bg[i]);
        if kani::any() {
            s = s.bold().underline();
        }
        if kani::any() {
            s = s.underline_color(any_color());
        }
        st.runs[i] = (s, text[i]);
        i += 1;
    }
    st.n = n;
    (st, Runs { fg, bg, text, n })
}

/// Console writer for the scripted runs: the accepted bytes form one stream, each byte
/// tagged with the colours of the call that delivered it.  "Every run exactly once, in
/// order, with its colours" is then: the stream is a prefix of the expected tagged text
/// (and all of it on success).
struct Tape {
    out: [(u8, Option<u8>, Option<u8>); 4],
    len: usize,
    calls: usize,
    empty_offers: usize,
    accept: [u8; MAXCALLS],
    fail_at: usize,
    kind: std::io::ErrorKind,
}

impl anstyle_wincon::WinconStream for Tape {
    fn write_colored(&mut self, fg: Option<AnsiColor>, bg: Option<AnsiColor>, data: &[u8]) -> std::io::Result<usize> {
        let k = self.calls;
        self.calls += 1;
        if k == self.fail_at {
            return Err(self.kind.into());
        }
        if data.is_empty() {
            self.empty_offers += 1;
        }
        let cap = if k < MAXCALLS { self.accept[k] as usize } else { 2 };
        let n = if data.len() < cap { data.len() } else { cap };
        let mut i = 0;
        while i < 2 {
            if i < n && self.len < 4 {
                self.out[self.len] = (data[i], fg.map(ansi_index), bg.map(ansi_index));
                self.len += 1;
            }
            i += 1;
        }
        Ok(n)
    }
}

fn tape(fail_max: usize, kind: std::io::ErrorKind) -> Tape {
    let accept: [u8; MAXCALLS] = kani::any();
    // 0, 1 or everything (runs are at most 2 bytes long)
    kani::assume(accept[0] <= 2 && accept[1] <= 2 && accept[2] <= 2 && accept[3] <= 2);
    let fail_at: usize = kani::any();
    kani::assume(fail_at < fail_max || fail_at == NEVER);
    Tape { out: [(0, None, None); 4], len: 0, calls: 0, empty_offers: 0, accept, fail_at, kind }
}

/// the expected tagged text of the scripted runs
fn expected(runs: &Runs) -> ([(u8, Option<u8>, Option<u8>); 3], usize) {
    let f0 = want_color(runs.fg[0]);
    let b0 = want_color(runs.bg[0]);
    let f1 = want_color(runs.fg[1]);
    let b1 = want_color(runs.bg[1]);
    let all = [(b'a', f0, b0), (b'b', f0, b0), (b'c', f1, b1)];
    let n = match runs.n {
        0 => 0,
        1 => 2,
        _ => 3,
    };
    (all, n)
}

fn is_prefix(t: &Tape, want: &[(u8, Option<u8>, Option<u8>); 3], n: usize) -> bool {
    let mut ok = t.len <= n;
    let mut i = 0;
    while i < 3 {
        if i < t.len && i < n && t.out[i] != want[i] {
            ok = false;
        }
        i += 1;
    }
    ok
}

/// write_all: every run handed over exactly once, in order, with its capped colours; short
/// counts are resumed with the rest, an interruption is retried, a console that accepts
/// nothing is WriteZero, other errors surface with their kind.
macro_rules! scripted_write_all {
    ($name:ident, $kind:expr) => {
#[kani::proof]
#[kani::unwind(4)]
fn $name() {
    let (mut st, runs) = any_runs();
    let mut t = tape(MAXCALLS, $kind);
    let r = write_all(&mut t, &mut st, b"ignored by the scripted extractor");
    assert!(st.started == 1, "one extraction per call");
    let (want, n) = expected(&runs);
    let interrupted = t.kind == std::io::ErrorKind::Interrupted;
    if t.calls <= MAXCALLS {
        assert!(is_prefix(&t, &want, n), "runs reach the console in order, once, with their 16-colour fg/bg");
        assert!(t.empty_offers == 0, "no empty hand-over");
        let failed = t.fail_at != NEVER && t.calls > t.fail_at && !interrupted;
        match r {
            Ok(()) => {
                assert!(!failed, "an error of the console writer reaches the caller");
                assert!(t.len == n, "every run handed over completely");
                kani::cover!(t.calls == 3 && runs.n == 2);
                kani::cover!(interrupted && t.fail_at == 0 && t.calls >= 2);
                kani::cover!(runs.n == 0);
            }
            Err(err) => {
                assert!(
                    (failed && err.kind() == t.kind) || (!failed && err.kind() == std::io::ErrorKind::WriteZero),
                    "errors reach the caller with their kind"
                );
                kani::cover!(failed && t.fail_at == 1);
                kani::cover!(!failed);
                core::mem::forget(err);
            }
        }
    }
    core::mem::forget(st);
}
    };
}
// concrete error kind per query: a symbolic kind makes io::Error's drop glue the dominant cost
scripted_write_all!(scripted_write_all_interrupted, std::io::ErrorKind::Interrupted);
scripted_write_all!(scripted_write_all_would_block, std::io::ErrorKind::WouldBlock);
scripted_write_all!(scripted_write_all_other, std::io::ErrorKind::Other);

/// write(): one attempt per run; reports the buffer as consumed only if all of its text was
/// handed over; errors surface.
macro_rules! scripted_write {
    ($name:ident, $kind:expr) => {
        #[kani::proof]
        #[kani::unwind(4)]
        fn $name() {
            let (mut st, runs) = any_runs();
            let mut t = tape(3, $kind);
            #[cfg(feature = "kf_c18_short_console_write")]
            kani::assume(t.accept[0] == 2 && t.accept[1] == 2);
            let buf = [b'x'; 5];
            let r = write(&mut t, &mut st, &buf);
            assert!(st.started == 1, "one extraction per call");
            assert!(t.calls <= 2, "one attempt per run");
            let (want, n) = expected(&runs);
            match r {
                Ok(k) => {
                    assert!(k <= buf.len(), "count no larger than the buffer");
                    assert!(t.fail_at == NEVER || t.calls <= t.fail_at, "an error of the console writer reaches the caller");
                    if k == buf.len() {
                        assert!(is_prefix(&t, &want, n) && t.len == n, "the buffer is reported consumed only if all of its text was handed over, in order, with its 16-colour fg/bg");
                    }
                    kani::cover!(k == buf.len() && t.calls == 2);
                }
                Err(err) => {
                    assert!(t.fail_at != NEVER && t.calls == t.fail_at + 1 && err.kind() == $kind, "errors reach the caller with their kind");
                    assert!(is_prefix(&t, &want, n), "what was handed over before the error is in order, with its colours");
                    kani::cover!(t.fail_at == 1);
                    core::mem::forget(err);
                }
            }
            core::mem::forget(st);
        }
    };
}
scripted_write!(scripted_write_other, std::io::ErrorKind::Other);
scripted_write!(scripted_write_interrupted, std::io::ErrorKind::Interrupted);

/// Formatted writes go through the same loop: two fragments, two extractions, errors surface.
#[kani::proof]
#[kani::unwind(4)]
fn scripted_write_fmt() {
    // concrete run and console script except for the failing call: the formatting machinery
    // dominates the cost of this query
    let mut st = crate::adapter::WinconBytes::new();
    let fg = Some(Color::Ansi256(Ansi256Color(9)));
    let bg = Some(Color::Rgb(RgbColor(1, 2, 3)));
    st.runs[0] = (Style::new().fg_color(fg).bg_color(bg), "ab");
    st.n = 1;
    let runs = Runs { fg: [fg, None], bg: [bg, None], text: ["ab", "c"], n: 1 };
    let fail_at: usize = kani::any();
    kani::assume(fail_at < 2 || fail_at == NEVER);
    let mut t = Tape { out: [(0, None, None); 4], len: 0, calls: 0, empty_offers: 0, accept: [2; MAXCALLS], fail_at, kind: std::io::ErrorKind::Other };
    let r = write_fmt(&mut t, &mut st, format_args!("{}{}", "p", "q"));
    let f0 = want_color(runs.fg[0]);
    let b0 = want_color(runs.bg[0]);
    match r {
        Ok(()) => {
            assert!(t.fail_at == NEVER, "an error of the console writer reaches the caller");
            assert!(st.started == 2 && t.calls == 2 && t.len == 4, "each fragment goes through write_all once");
            assert!(t.out[0] == (b'a', f0, b0) && t.out[3] == (b'b', f0, b0), "the run's text with its 16-colour fg/bg");
            kani::cover!(true);
        }
        Err(err) => {
            assert!(t.fail_at != NEVER && t.calls == t.fail_at + 1, "the first error ends the formatted write");
            assert!(err.kind() == std::io::ErrorKind::Other, "errors reach the caller with their kind");
            kani::cover!(t.fail_at == 1);
            core::mem::forget(err);
        }
    }
    core::mem::forget(st);
}

/// Witness of the recorded finding `short-console-write-reported-consumed` on the scripted extractor.
#[kani::proof]
#[kani::unwind(4)]
fn kf_witness_short_console_write_scripted() {
    let mut st = crate::adapter::WinconBytes::new();
    st.runs[0] = (Style::new(), "ab");
    st.n = 1;
    let mut t = Tape { out: [(0, None, None); 4], len: 0, calls: 0, empty_offers: 0, accept: [1, 2, 2, 2], fail_at: NEVER, kind: std::io::ErrorKind::Other };
    let r = write(&mut t, &mut st, b"ab");
    let n = r.unwrap();
    assert!(!(n == 2 && t.len == 1 && t.calls == 1), "the buffer is reported consumed only if all of its text was handed over");
    core::mem::forget(st);
}
