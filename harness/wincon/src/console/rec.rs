//! Recording console writer shared by the end-to-end and the scripted-run harnesses.
use anstyle::AnsiColor;

pub(super) const NEVER: usize = 99;
pub(super) const MAXCALLS: usize = 4;

pub(super) fn ansi_index(c: AnsiColor) -> u8 {
    use AnsiColor::*;
    match c {
        Black => 0,
        Red => 1,
        Green => 2,
        Yellow => 3,
        Blue => 4,
        Magenta => 5,
        Cyan => 6,
        White => 7,
        BrightBlack => 8,
        BrightRed => 9,
        BrightGreen => 10,
        BrightYellow => 11,
        BrightBlue => 12,
        BrightMagenta => 13,
        BrightCyan => 14,
        BrightWhite => 15,
    }
}

#[derive(Clone, Copy)]
pub(super) struct Call {
    pub(super) fg: Option<u8>,
    pub(super) bg: Option<u8>,
    pub(super) data: [u8; 4],
    pub(super) offered: usize,
    pub(super) taken: usize,
}

/// Recording console writer: every `write_colored` call is logged; call `k` accepts
/// `min(len, accept[k])` bytes or fails with `kind` when `k == fail_at`.
pub(super) struct Rec {
    pub(super) calls: [Call; MAXCALLS],
    pub(super) n: usize,
    pub(super) accept: [usize; MAXCALLS],
    pub(super) fail_at: usize,
    pub(super) kind: std::io::ErrorKind,
}

impl Rec {
    pub(super) fn new(accept: [usize; MAXCALLS], fail_at: usize, kind: std::io::ErrorKind) -> Self {
        Rec {
            calls: [Call {
                fg: None,
                bg: None,
                data: [0; 4],
                offered: 0,
                taken: 0,
            }; MAXCALLS],
            n: 0,
            accept,
            fail_at,
            kind,
        }
    }
}

impl anstyle_wincon::WinconStream for Rec {
    fn write_colored(&mut self, fg: Option<AnsiColor>, bg: Option<AnsiColor>, data: &[u8]) -> std::io::Result<usize> {
        let k = self.n;
        self.n += 1;
        if k == self.fail_at {
            return Err(self.kind.into());
        }
        let cap = if k < MAXCALLS { self.accept[k] } else { usize::MAX };
        let n = if data.len() < cap { data.len() } else { cap };
        if k < MAXCALLS {
            let mut c = Call {
                fg: fg.map(ansi_index),
                bg: bg.map(ansi_index),
                data: [0; 4],
                offered: data.len(),
                taken: n,
            };
            let mut i = 0;
            while i < 4 {
                if i < data.len() {
                    c.data[i] = data[i];
                }
                i += 1;
            }
            self.calls[k] = c;
        }
        Ok(n)
    }
}

