//! Harnesses with access to the private `write`, `write_all`, `write_fmt`, `cap_wincon_color`.
use super::*;
use anstyle::{Ansi256Color, AnsiColor, Color, RgbColor};

use super::rec::*;

/// Colour capping: complete over all colours.
#[kani::proof]
fn cap_color_complete() {
    let k: u8 = kani::any();
    let i: u8 = kani::any();
    let c = match k % 3 {
        0 => {
            kani::assume(i < 16);
            Color::Ansi(Ansi256Color(i).into_ansi().unwrap())
        }
        1 => Color::Ansi256(Ansi256Color(i)),
        _ => Color::Rgb(RgbColor(i, kani::any(), kani::any())),
    };
    let got = cap_wincon_color(c).map(ansi_index);
    let want = match c {
        Color::Ansi(a) => Some(ansi_index(a)),
        Color::Ansi256(x) if x.0 < 16 => Some(x.0),
        _ => None,
    };
    assert!(got == want, "256-colour indices 0-15 map to their palette colour, everything else falls back to the default");
    let a: u8 = kani::any();
    kani::assume(a < 16);
    let ac = Ansi256Color(a).into_ansi().unwrap();
    assert!(cap_wincon_color(Color::Ansi(ac)).map(ansi_index) == Some(a), "16-colour values are kept");
    kani::cover!(want == Some(15));
    kani::cover!(want.is_none() && k % 3 == 1);
}

fn any_kind() -> std::io::ErrorKind {
    let k: u8 = kani::any();
    match k % 3 {
        0 => std::io::ErrorKind::WouldBlock,
        1 => std::io::ErrorKind::Interrupted,
        _ => std::io::ErrorKind::Other,
    }
}

fn printable() -> u8 {
    let c: u8 = kani::any();
    kani::assume(c >= 0x20 && c < 0x7F);
    c
}

/// Skeleton `c1 ESC [ 4 e m c2`: two runs, the second with a 16-colour background (the
/// parser costs the solver ~40 s of symbolic execution per input byte, so the skeleton is as
/// short as two differently coloured runs allow).  Concrete structure, symbolic text / colour
/// digit / console script; concrete text.
const LEN: usize = 7;
fn skeleton() -> ([u8; LEN], Option<u8>, Option<u8>) {
    let e: u8 = kani::any();
    kani::assume(e < 8);
    // the visible text is concrete: a symbolic character pushed into the extractor's String
    // (UTF-8 encoding, reallocation) costs the solver far more than the write loop under test
    let buf = [b'A', 0x1B, b'[', b'4', b'0' + e, b'm', b'B'];
    (buf, None, Some(e))
}

/// Everything the console accepted, checked run by run.  Returns (ok, default-colour
/// bytes taken, coloured bytes taken, first default byte, first coloured byte).
fn accepted(rec: &Rec, fail_at: usize, d: Option<u8>, e: Option<u8>) -> (bool, usize, usize, u8, u8) {
    let mut n0 = 0usize;
    let mut n1 = 0usize;
    let mut b0 = 0u8;
    let mut b1 = 0u8;
    let mut ok = true;
    let mut i = 0;
    while i < MAXCALLS {
        if i < rec.n && i != fail_at {
            let c = rec.calls[i];
            let mut k = 0;
            while k < 4 {
                if k < c.taken {
                    // no escape byte is ever passed as text
                    if c.data[k] < 0x20 || c.data[k] == 0x7F {
                        ok = false;
                    }
                    if c.fg.is_none() && c.bg.is_none() {
                        // default-colour text comes before any coloured text
                        if n1 > 0 {
                            ok = false;
                        }
                        if n0 == 0 {
                            b0 = c.data[k];
                        }
                        n0 += 1;
                    } else {
                        if c.fg != d || c.bg != e {
                            ok = false;
                        }
                        if n1 == 0 {
                            b1 = c.data[k];
                        }
                        n1 += 1;
                    }
                }
                k += 1;
            }
        }
        i += 1;
    }
    (ok, n0, n1, b0, b1)
}

macro_rules! write_all_case {
    ($name:ident, $cut:expr) => {
        write_all_case!($name, $cut, None, None);
    };
    ($name:ident, $cut:expr, $script:expr, $fail:expr) => {
        /// write_all of the skeleton split at byte `$cut` into two calls: every run handed
        /// over exactly once, in order, with its colours, no escape byte as text; short
        /// counts are resumed, an interruption is retried, other errors surface.
        #[kani::proof]
        #[kani::unwind(12)]
        fn $name() {
            let (buf, d, e) = skeleton();
            let script_opt: Option<[usize; MAXCALLS]> = $script;
            let fail_opt: Option<usize> = $fail;
            // quick tier: concrete console scripts (text, colour and error kind stay symbolic)
            let accept: [usize; MAXCALLS] = match script_opt {
                Some(a) => a,
                None => kani::any(),
            };
            let fail_at: usize = match fail_opt {
                Some(f) => f,
                None => {
                    let f: usize = kani::any();
                    kani::assume(f < MAXCALLS || f == NEVER);
                    f
                }
            };
            let kind = any_kind();
            let mut rec = Rec::new(accept, fail_at, kind);
            let mut state = crate::adapter::WinconBytes::new();
            let r1 = write_all(&mut rec, &mut state, &buf[..$cut]);
            let r2 = if r1.is_ok() { write_all(&mut rec, &mut state, &buf[$cut..]) } else { Ok(()) };
            let (ok, n0, n1, b0, b1) = accepted(&rec, fail_at, d, e);
            assert!(ok, "runs carry their 16-colour fg/bg, in order, and no escape byte is passed as text");
            // an interruption is retried (the script fails only once), every other error ends the call
            let failed = fail_at != NEVER && rec.n > fail_at && kind != std::io::ErrorKind::Interrupted;
            match (r1.is_ok(), r2.is_ok()) {
                (true, true) => {
                    assert!(!failed, "an error of the console writer reaches the caller");
                    assert!(n0 == 1 && b0 == buf[0], "first run handed over exactly once");
                    assert!(n1 == 1 && b1 == buf[LEN - 1], "second run handed over exactly once");
                    kani::cover!(rec.n > 2);
                    kani::cover!(kind == std::io::ErrorKind::Interrupted && fail_at != NEVER && rec.n > fail_at);
                }
                _ => {
                    // either the injected error, or a console that accepted nothing (WriteZero)
                    let err = if let Err(x) = r1 { x } else { r2.unwrap_err() };
                    assert!(
                        (failed && err.kind() == kind) || err.kind() == std::io::ErrorKind::WriteZero,
                        "errors reach the caller with their kind"
                    );
                    assert!(n0 <= 1 && n1 <= 1, "nothing is handed over twice");
                    core::mem::forget(err);
                    kani::cover!(failed);
                }
            }
            core::mem::forget(state);
        }
    };
}

const ALL: usize = usize::MAX;
write_all_case!(write_all_s_accept_all, 2, Some([ALL; MAXCALLS]), Some(NEVER));
write_all_case!(write_all_s_zero_second, 2, Some([ALL, 0, ALL, ALL]), Some(NEVER));
write_all_case!(write_all_s_fail_first, 2, Some([ALL; MAXCALLS]), Some(0));
write_all_case!(write_all_s_fail_second, 2, Some([ALL; MAXCALLS]), Some(1));
write_all_case!(write_all_cut_0, 0);
write_all_case!(write_all_cut_1, 1);
write_all_case!(write_all_cut_2, 2);
write_all_case!(write_all_cut_4, 4);
write_all_case!(write_all_cut_6, 6);

/// write(): reports the buffer as consumed only if all of its text was handed over.
#[kani::proof]
#[kani::unwind(12)]
fn write_reports_consumed_only_if_handed_over() {
    let (buf, d, e) = skeleton();
    let accept: [usize; MAXCALLS] = kani::any();
    #[cfg(feature = "kf_c18_short_console_write")]
    kani::assume(accept[0] >= 1 && accept[1] >= 1);
    let fail_at: usize = kani::any();
    kani::assume(fail_at < 3 || fail_at == NEVER);
    let kind = any_kind();
    let mut rec = Rec::new(accept, fail_at, kind);
    let mut state = crate::adapter::WinconBytes::new();
    let r = write(&mut rec, &mut state, &buf);
    let (ok, n0, n1, _b0, _b1) = accepted(&rec, fail_at, d, e);
    assert!(ok, "runs carry their 16-colour fg/bg, in order, and no escape byte is passed as text");
    match r {
        Ok(n) => {
            assert!(n <= LEN, "count no larger than the buffer");
            assert!(fail_at == NEVER || rec.n <= fail_at, "an error of the console writer reaches the caller");
            if n == LEN {
                assert!(n0 + n1 == 2, "the buffer is reported consumed only if all of its text was handed over");
            }
            kani::cover!(n == LEN);
        }
        Err(err) => {
            assert!(fail_at != NEVER && rec.n > fail_at && err.kind() == kind, "errors reach the caller with their kind");
            core::mem::forget(err);
            kani::cover!(fail_at == 1);
        }
    }
    core::mem::forget(state);
}

/// Witness of the recorded finding `short-console-write-reported-consumed`.
#[kani::proof]
#[kani::unwind(14)]
fn kf_witness_short_console_write() {
    let buf = *b"ab";
    let mut accept = [usize::MAX; MAXCALLS];
    accept[0] = 1;
    let mut rec = Rec::new(accept, NEVER, std::io::ErrorKind::Other);
    let mut state = crate::adapter::WinconBytes::new();
    let r = write(&mut rec, &mut state, &buf);
    let n = r.unwrap();
    assert!(!(n == 2 && rec.calls[0].taken == 1 && rec.n == 1), "the buffer is reported consumed only if all of its text was handed over");
    core::mem::forget(state);
}
