//! C07 harnesses (child module of the included extractor source: sees its private items).
use super::*;
use crate::common::*;
use anstyle_parse::Perform as _;
use vmodels::sgr::{self, Sty, EXTRACT};

fn capture(style: anstyle::Style) -> WinconCapture {
    WinconCapture {
        style,
        printable: String::new(),
        ready: None,
    }
}

/// Dispatch one SGR sequence with a concrete parameter *shape* (`MASK` bit i-1 set =
/// value i is a ':' sub-parameter of the group before it) and symbolic values, from a
/// symbolic prior style; compare with the reference interpreter wherever it speaks.
macro_rules! csi_case {
    ($name:ident, $k:expr, $mask:expr) => {
        #[kani::proof]
        #[kani::unwind(14)]
        fn $name() {
            let vals: [u16; $k] = kani::any();
            let mut sub = [false; $k];
            let mut i = 1;
            while i < $k {
                sub[i] = ($mask >> (i - 1)) & 1 == 1;
                i += 1;
            }
            let prior = any_style();
            let params = params_from(&vals, &sub, $k);
            let mut cap = capture(prior);
            cap.csi_dispatch(&params, &[], false, b'm');
            let got = cap.style;
            match sgr::apply(sty_of(prior), &vals, &sub, $k, EXTRACT) {
                Some(m) => {
                    assert!(sty_of(got) == m, "style after the sequence is what a conforming terminal has in effect");
                    kani::cover!(m != sty_of(prior));
                    kani::cover!(m.eff != sty_of(prior).eff && m.fg != sty_of(prior).fg);
                }
                None => {
                    kani::cover!(true);
                }
            }
            assert!(cap.ready.is_none(), "nothing pending: no run is emitted");
            core::mem::forget(cap);
        }
    };
}

csi_case!(csi_k1_s0, 1, 0);
csi_case!(csi_k2_s0, 2, 0);
csi_case!(csi_k2_s1, 2, 1);
csi_case!(csi_k3_s0, 3, 0);
csi_case!(csi_k3_s1, 3, 1);
csi_case!(csi_k3_s2, 3, 2);
csi_case!(csi_k3_s3, 3, 3);
csi_case!(csi_k4_s0, 4, 0);
csi_case!(csi_k4_s1, 4, 1);
csi_case!(csi_k4_s2, 4, 2);
csi_case!(csi_k4_s3, 4, 3);
csi_case!(csi_k4_s4, 4, 4);
csi_case!(csi_k4_s5, 4, 5);
csi_case!(csi_k4_s6, 4, 6);
csi_case!(csi_k4_s7, 4, 7);
// the extended-colour forms followed / preceded by another attribute, and 4:n forms
csi_case!(csi_k5_s0, 5, 0); // 38;2;r;g;b  |  1;38;5;n;..
csi_case!(csi_k5_s15, 5, 15); // 38:2:r:g:b
csi_case!(csi_k5_s6, 5, 6); // c;38:5:n;c
csi_case!(csi_k5_s3, 5, 3); // 38:5:n;c;c
csi_case!(csi_k5_s12, 5, 12); // c;c;38:5:n
csi_case!(csi_k5_s1, 5, 1); // 4:n;38;5;n
csi_case!(csi_k6_s0, 6, 0); // c;38;2;r;g;b | 38;2;r;g;b;c | 38;5;n;48;5;n
csi_case!(csi_k6_s30, 6, 30); // c;38:2:r:g:b
csi_case!(csi_k6_s15, 6, 15); // 38:2:r:g:b;c
csi_case!(csi_k6_s27, 6, 27); // 38:5:n;48:5:n
csi_case!(csi_k6_s1, 6, 1); // 4:n;38;2;r... (incomplete) / 4:n;c;c;c;c
csi_case!(csi_k7_s0, 7, 0); // c;38;2;r;g;b;c
csi_case!(csi_k8_s0, 8, 0); // 38;5;n;48;2;r;g;b
csi_case!(csi_k10_s0, 10, 0); // 38;2;r;g;b;48;2;r;g;b
csi_case!(csi_k10_s495, 10, 495); // 38:2:r:g:b;48:2:r:g:b
csi_case!(csi_k11_s0, 11, 0); // 38;2;r;g;b;58;2;r;g;b;c

/// Attributes combined in one sequence == the same attributes in separate sequences.
#[kani::proof]
#[kani::unwind(14)]
fn combined_equals_separate_2() {
    let a: u16 = kani::any();
    let b: u16 = kani::any();
    // single-parameter attributes only (extended colours need their operands)
    kani::assume(a != 38 && a != 48 && a != 58 && b != 38 && b != 48 && b != 58);
    let prior = any_style();
    let mut one = capture(prior);
    one.csi_dispatch(&params_from(&[a, b], &[false, false], 2), &[], false, b'm');
    let mut two = capture(prior);
    two.csi_dispatch(&params_from(&[a], &[false], 1), &[], false, b'm');
    two.csi_dispatch(&params_from(&[b], &[false], 1), &[], false, b'm');
    assert!(one.style == two.style, "a;b has the effect of a followed by b");
    kani::cover!(a == 4 && b == 1);
    kani::cover!(one.style != prior);
    core::mem::forget(one);
    core::mem::forget(two);
}

/// Non-SGR sequences and sequences flagged `ignore` change nothing.
#[kani::proof]
#[kani::unwind(14)]
fn non_sgr_changes_nothing() {
    let vals: [u16; 2] = kani::any();
    let action: u8 = kani::any();
    let ignore: bool = kani::any();
    kani::assume(action != b'm' || ignore);
    let inter: [u8; 2] = kani::any();
    let prior = any_style();
    let mut cap = capture(prior);
    cap.csi_dispatch(&params_from(&vals, &[false, false], 2), &inter, ignore, action);
    assert!(cap.style == prior && cap.ready.is_none(), "only un-ignored `m` sequences change the style");
    cap.csi_dispatch(&params_from(&vals, &[false, true], 2), &[], ignore, action);
    assert!(cap.style == prior && cap.ready.is_none(), "only un-ignored `m` sequences change the style");
    cap.esc_dispatch(&inter, ignore, action);
    cap.osc_dispatch(&[&inter], ignore);
    assert!(cap.style == prior && cap.ready.is_none() && cap.printable.is_empty(), "ESC and OSC sequences change nothing");
    kani::cover!(action == b'm');
    kani::cover!(action == b'H');
    core::mem::forget(cap);
}
