//! C03: incremental processing equals one-shot processing for every chunking.
use crate::common::Sink;
use crate::strip_common::*;
use anstream::adapter::{strip_bytes, strip_str, StripBytes, StripStr};
use std::io::Write as _;

/// Bit i of `mask` set = cut between byte i and byte i+1.  All 2^(N-1) partitions.
macro_rules! bytes_chunked {
    ($name:ident, $sname:ident, $n:expr, $u:literal) => {
        #[kani::proof]
        #[kani::unwind($u)]
        fn $name() {
            let buf: [u8; $n] = kani::any();
            let mask: u8 = kani::any();
            let (_keep, ctl) = spec(&buf, $n);
            #[cfg(feature = "kf_c01_ctl_in_broken_utf8")]
            kani::assume(!ctl);
            // one-shot
            let mut one = [false; $n];
            let mut pos = 0usize;
            for piece in strip_bytes(&buf) {
                let _ = mark(&buf, piece, &mut pos, &mut one);
            }
            // chunked through one incremental adapter
            let mut inc = [false; $n];
            let mut pos = 0usize;
            let mut st = StripBytes::new();
            let mut start = 0usize;
            let mut i = 0usize;
            let mut ok = true;
            while i < $n {
                let cut = i == $n - 1 || (mask >> i) & 1 == 1;
                if cut {
                    for piece in st.strip_next(&buf[start..=i]) {
                        ok &= mark(&buf, piece, &mut pos, &mut inc);
                    }
                    start = i + 1;
                }
                i += 1;
            }
            assert!(ok, "pieces: inside the chunk, in order, no control byte");
            assert!(same(&one, &inc), "chunked result equals one-shot result");
            kani::cover!(mask & 1 == 1 && buf[0] == 0x1B && $n > 1);
            kani::cover!($n > 1 && mask & 1 == 1 && buf[0] >= 0xC2 && inc[0] && inc[1]);
            kani::cover!(mask == 0);
        }

        /// the strip stream fed chunk by chunk with write_all
        #[kani::proof]
        #[kani::unwind($u)]
        fn $sname() {
            let buf: [u8; $n] = kani::any();
            let mask: u8 = kani::any();
            let (_keep, ctl) = spec(&buf, $n);
            #[cfg(feature = "kf_c01_ctl_in_broken_utf8")]
            kani::assume(!ctl);
            let mut one: Sink<$n> = Sink::new();
            {
                let w: &mut dyn std::io::Write = &mut one;
                let mut s = anstream::StripStream::new(w);
                assert!(s.write_all(&buf).is_ok());
            }
            let mut inc: Sink<$n> = Sink::new();
            {
                let w: &mut dyn std::io::Write = &mut inc;
                let mut s = anstream::StripStream::new(w);
                let mut start = 0usize;
                let mut i = 0usize;
                while i < $n {
                    let cut = i == $n - 1 || (mask >> i) & 1 == 1;
                    if cut {
                        assert!(s.write_all(&buf[start..=i]).is_ok());
                        start = i + 1;
                    }
                    i += 1;
                }
            }
            assert!(crate::common::sinks_equal(&one, &inc), "chunked stream output equals one-shot output");
            kani::cover!(mask & 1 == 1 && buf[0] == 0x1B && $n > 1);
        }
    };
}

bytes_chunked!(bytes_chunked_2, stream_chunked_2, 2, 4);
bytes_chunked!(bytes_chunked_3, stream_chunked_3, 3, 5);
bytes_chunked!(bytes_chunked_4, stream_chunked_4, 4, 6);
bytes_chunked!(bytes_chunked_5, stream_chunked_5, 5, 7);

/// Text adapters: cuts only at character boundaries.
macro_rules! str_chunked {
    ($name:ident, $n:expr, $u:literal) => {
        #[kani::proof]
        #[kani::unwind($u)]
        fn $name() {
            let buf: [u8; $n] = kani::any();
            let mask: u8 = kani::any();
            kani::assume(valid_utf8(&buf));
            let text = match core::str::from_utf8(&buf) {
                Ok(t) => t,
                Err(_) => {
                    assert!(false, "HARNESS-LIMIT: model accepted ill-formed UTF-8");
                    return;
                }
            };
            let mut one = [false; $n];
            let mut pos = 0usize;
            for piece in strip_str(text) {
                let _ = mark(&buf, piece.as_bytes(), &mut pos, &mut one);
            }
            let mut inc = [false; $n];
            let mut pos = 0usize;
            let mut st = StripStr::new();
            let mut start = 0usize;
            let mut i = 0usize;
            let mut ok = true;
            while i < $n {
                let last = i == $n - 1;
                let cut = last || (mask >> i) & 1 == 1;
                if cut {
                    // a cut must fall on a character boundary
                    if !last {
                        kani::assume(!is_continuation(buf[i + 1]));
                    }
                    let chunk = match core::str::from_utf8(&buf[start..=i]) {
                        Ok(t) => t,
                        Err(_) => {
                            assert!(false, "HARNESS-LIMIT: chunk not on a character boundary");
                            return;
                        }
                    };
                    for piece in st.strip_next(chunk) {
                        ok &= mark(&buf, piece.as_bytes(), &mut pos, &mut inc);
                    }
                    start = i + 1;
                }
                i += 1;
            }
            assert!(ok, "pieces: inside the chunk, in order, no control byte");
            assert!(same(&one, &inc), "chunked result equals one-shot result");
            kani::cover!(mask & 1 == 1 && buf[0] == 0x1B && $n > 1);
            kani::cover!(mask == 0);
        }
    };
}

str_chunked!(str_chunked_2, 2, 4);
str_chunked!(str_chunked_3, 3, 5);
str_chunked!(str_chunked_4, 4, 6);
