//! C03: incremental processing equals one-shot processing for every chunking.
//!
//! One query per (length, partition): the cut mask is concrete (bit i set = cut between byte
//! i and byte i+1), so every chunk is a slice of concrete bounds; all byte values are symbolic.
//! All 2^(n-1) partitions of a length are separate queries.
use crate::common::Sink;
use crate::strip_common::*;
use anstream::adapter::{strip_bytes, strip_str, StripBytes, StripStr};
use std::io::Write as _;

macro_rules! chunked_case {
    ($bname:ident, $sname:ident, $tname:ident, $n:expr, $mask:expr, $u:literal) => {
        /// byte adapter, chunked vs one-shot
        #[kani::proof]
        #[kani::unwind($u)]
        fn $bname() {
            let buf: [u8; $n] = kani::any();
            let (_keep, ctl) = spec(&buf, $n);
            #[cfg(feature = "kf_c01_ctl_in_broken_utf8")]
            kani::assume(!ctl);
            let mut one = [false; $n];
            let mut pos = 0usize;
            for piece in strip_bytes(&buf) {
                let _ = mark(&buf, piece, &mut pos, &mut one);
            }
            let mut inc = [false; $n];
            let mut pos = 0usize;
            let mut st = StripBytes::new();
            let mut start = 0usize;
            let mut i = 0usize;
            let mut ok = true;
            while i < $n {
                let cut = i == $n - 1 || (($mask as u32) >> i) & 1 == 1;
                if cut {
                    for piece in st.strip_next(&buf[start..=i]) {
                        ok &= mark(&buf, piece, &mut pos, &mut inc);
                    }
                    start = i + 1;
                }
                i += 1;
            }
            assert!(ok, "pieces: inside the chunk, in order, no control byte");
            assert!(same(&one, &inc), "chunked result equals one-shot result");
            kani::cover!(buf[0] == 0x1B && !inc[$n - 1]);
            kani::cover!(buf[0] >= 0xC2 && inc[0] && inc[1]);
        }

        /// strip stream fed chunk by chunk with write_all
        #[kani::proof]
        #[kani::unwind($u)]
        fn $sname() {
            let buf: [u8; $n] = kani::any();
            let (_keep, ctl) = spec(&buf, $n);
            #[cfg(feature = "kf_c01_ctl_in_broken_utf8")]
            kani::assume(!ctl);
            let mut one: Sink<$n> = Sink::new();
            {
                let w: &mut (dyn std::io::Write + 'static) = &mut one;
                let mut s = anstream::StripStream::new(w);
                assert!(s.write_all(&buf).is_ok());
            }
            let mut inc: Sink<$n> = Sink::new();
            {
                let w: &mut (dyn std::io::Write + 'static) = &mut inc;
                let mut s = anstream::StripStream::new(w);
                let mut start = 0usize;
                let mut i = 0usize;
                while i < $n {
                    let cut = i == $n - 1 || (($mask as u32) >> i) & 1 == 1;
                    if cut {
                        assert!(s.write_all(&buf[start..=i]).is_ok());
                        start = i + 1;
                    }
                    i += 1;
                }
            }
            assert!(crate::common::sinks_equal(&one, &inc), "chunked stream output equals one-shot output");
            kani::cover!(buf[0] == 0x1B && inc.len < $n);
        }

        /// text adapter: the cuts of this partition must fall on character boundaries
        #[kani::proof]
        #[kani::unwind($u)]
        fn $tname() {
            let buf: [u8; $n] = kani::any();
            kani::assume(valid_utf8(&buf));
            let mut i = 0usize;
            while i + 1 < $n {
                if (($mask as u32) >> i) & 1 == 1 {
                    kani::assume(!is_continuation(buf[i + 1]));
                }
                i += 1;
            }
            let text = match core::str::from_utf8(&buf) {
                Ok(t) => t,
                Err(_) => {
                    assert!(false, "HARNESS-LIMIT: model accepted ill-formed UTF-8");
                    return;
                }
            };
            let mut one = [false; $n];
            let mut pos = 0usize;
            for piece in strip_str(text) {
                let _ = mark(&buf, piece.as_bytes(), &mut pos, &mut one);
            }
            let mut inc = [false; $n];
            let mut pos = 0usize;
            let mut st = StripStr::new();
            let mut start = 0usize;
            let mut i = 0usize;
            let mut ok = true;
            while i < $n {
                let cut = i == $n - 1 || (($mask as u32) >> i) & 1 == 1;
                if cut {
                    let chunk = match core::str::from_utf8(&buf[start..=i]) {
                        Ok(t) => t,
                        Err(_) => {
                            assert!(false, "HARNESS-LIMIT: chunk not on a character boundary");
                            return;
                        }
                    };
                    for piece in st.strip_next(chunk) {
                        ok &= mark(&buf, piece.as_bytes(), &mut pos, &mut inc);
                    }
                    start = i + 1;
                }
                i += 1;
            }
            assert!(ok, "pieces: inside the chunk, in order, no control byte");
            assert!(same(&one, &inc), "chunked result equals one-shot result");
            kani::cover!(buf[0] == 0x1B && !inc[$n - 1]);
        }
    };
}

chunked_case!(bytes_n2_m0, stream_n2_m0, str_n2_m0, 2, 0, 4);
chunked_case!(bytes_n2_m1, stream_n2_m1, str_n2_m1, 2, 1, 4);
chunked_case!(bytes_n3_m0, stream_n3_m0, str_n3_m0, 3, 0, 5);
chunked_case!(bytes_n3_m1, stream_n3_m1, str_n3_m1, 3, 1, 5);
chunked_case!(bytes_n3_m2, stream_n3_m2, str_n3_m2, 3, 2, 5);
chunked_case!(bytes_n3_m3, stream_n3_m3, str_n3_m3, 3, 3, 5);
chunked_case!(bytes_n4_m0, stream_n4_m0, str_n4_m0, 4, 0, 6);
chunked_case!(bytes_n4_m1, stream_n4_m1, str_n4_m1, 4, 1, 6);
chunked_case!(bytes_n4_m2, stream_n4_m2, str_n4_m2, 4, 2, 6);
chunked_case!(bytes_n4_m3, stream_n4_m3, str_n4_m3, 4, 3, 6);
chunked_case!(bytes_n4_m4, stream_n4_m4, str_n4_m4, 4, 4, 6);
chunked_case!(bytes_n4_m5, stream_n4_m5, str_n4_m5, 4, 5, 6);
chunked_case!(bytes_n4_m6, stream_n4_m6, str_n4_m6, 4, 6, 6);
chunked_case!(bytes_n4_m7, stream_n4_m7, str_n4_m7, 4, 7, 6);
chunked_case!(bytes_n5_m0, stream_n5_m0, str_n5_m0, 5, 0, 7);
chunked_case!(bytes_n5_m1, stream_n5_m1, str_n5_m1, 5, 1, 7);
chunked_case!(bytes_n5_m2, stream_n5_m2, str_n5_m2, 5, 2, 7);
chunked_case!(bytes_n5_m3, stream_n5_m3, str_n5_m3, 5, 3, 7);
chunked_case!(bytes_n5_m4, stream_n5_m4, str_n5_m4, 5, 4, 7);
chunked_case!(bytes_n5_m5, stream_n5_m5, str_n5_m5, 5, 5, 7);
chunked_case!(bytes_n5_m6, stream_n5_m6, str_n5_m6, 5, 6, 7);
chunked_case!(bytes_n5_m7, stream_n5_m7, str_n5_m7, 5, 7, 7);
chunked_case!(bytes_n5_m8, stream_n5_m8, str_n5_m8, 5, 8, 7);
chunked_case!(bytes_n5_m9, stream_n5_m9, str_n5_m9, 5, 9, 7);
chunked_case!(bytes_n5_m10, stream_n5_m10, str_n5_m10, 5, 10, 7);
chunked_case!(bytes_n5_m11, stream_n5_m11, str_n5_m11, 5, 11, 7);
chunked_case!(bytes_n5_m12, stream_n5_m12, str_n5_m12, 5, 12, 7);
chunked_case!(bytes_n5_m13, stream_n5_m13, str_n5_m13, 5, 13, 7);
chunked_case!(bytes_n5_m14, stream_n5_m14, str_n5_m14, 5, 14, 7);
chunked_case!(bytes_n5_m15, stream_n5_m15, str_n5_m15, 5, 15, 7);
