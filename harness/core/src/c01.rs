//! C01: stripping removes exactly the escape sequences and nothing else.
use crate::common::Sink;
use crate::strip_common::*;
use anstream::adapter::{strip_bytes, strip_str, StripBytes, StripStr};
use std::io::Write as _;

macro_rules! bytes_case {
    ($one:ident, $inc:ident, $stream:ident, $n:expr, $u:literal) => {
        /// one-shot byte adapter, every byte string of this length
        #[kani::proof]
        #[kani::unwind($u)]
        fn $one() {
            let buf: [u8; $n] = kani::any();
            let (keep, ctl) = spec(&buf, $n);
            #[cfg(feature = "kf_c01_ctl_in_broken_utf8")]
            kani::assume(!ctl);
            let mut got = [false; $n];
            let mut pos = 0usize;
            for piece in strip_bytes(&buf) {
                assert!(mark(&buf, piece, &mut pos, &mut got), "piece: inside input, in order, no control byte");
            }
            assert!(same(&got, &keep), "output is exactly the visible text");
            #[cfg(not(feature = "kf_c01_ctl_in_broken_utf8"))]
            kani::cover!(ctl || $n < 2);
            kani::cover!((keep[$n - 1] && !keep[0]) || $n < 2);
            kani::cover!(buf[0] == 0x1B && !keep[$n - 1]);
            kani::cover!(keep[0]);
        }

        /// incremental byte adapter fed the whole input at once
        #[kani::proof]
        #[kani::unwind($u)]
        fn $inc() {
            let buf: [u8; $n] = kani::any();
            let (keep, ctl) = spec(&buf, $n);
            #[cfg(feature = "kf_c01_ctl_in_broken_utf8")]
            kani::assume(!ctl);
            let mut got = [false; $n];
            let mut pos = 0usize;
            let mut st = StripBytes::new();
            for piece in st.strip_next(&buf) {
                assert!(mark(&buf, piece, &mut pos, &mut got), "piece: inside input, in order, no control byte");
            }
            assert!(same(&got, &keep), "output is exactly the visible text");
            kani::cover!((keep[$n - 1] && !keep[0]) || $n < 2);
            kani::cover!(keep[0]);
        }

        /// never-colour stream / strip stream over an in-memory writer
        #[kani::proof]
        #[kani::unwind($u)]
        fn $stream() {
            let buf: [u8; $n] = kani::any();
            let (keep, ctl) = spec(&buf, $n);
            #[cfg(feature = "kf_c01_ctl_in_broken_utf8")]
            kani::assume(!ctl);
            let mut sink: Sink<$n> = Sink::new();
            {
                let w: &mut dyn std::io::Write = &mut sink;
                let mut s = anstream::StripStream::new(w);
                assert!(s.write_all(&buf).is_ok());
            }
            // expected: the kept bytes in order
            let mut want: Sink<$n> = Sink::new();
            let mut i = 0;
            while i < $n {
                if keep[i] {
                    want.push_bytes(&buf[i..i + 1]);
                }
                i += 1;
            }
            assert!(crate::common::sinks_equal(&sink, &want), "stream delivers exactly the visible text");
            kani::cover!(want.len == 1);
            kani::cover!(want.len == 0);
        }
    };
}

bytes_case!(bytes_oneshot_1, bytes_incremental_1, stream_1, 1, 3);
bytes_case!(bytes_oneshot_2, bytes_incremental_2, stream_2, 2, 4);
bytes_case!(bytes_oneshot_3, bytes_incremental_3, stream_3, 3, 5);
bytes_case!(bytes_oneshot_4, bytes_incremental_4, stream_4, 4, 6);
bytes_case!(bytes_oneshot_5, bytes_incremental_5, stream_5, 5, 7);

macro_rules! str_case {
    ($one:ident, $inc:ident, $n:expr, $u:literal) => {
        /// one-shot text adapter, every UTF-8 string of this many bytes
        #[kani::proof]
        #[kani::unwind($u)]
        fn $one() {
            let buf: [u8; $n] = kani::any();
            kani::assume(valid_utf8(&buf));
            let text = match core::str::from_utf8(&buf) {
                Ok(t) => t,
                Err(_) => {
                    assert!(false, "HARNESS-LIMIT: model accepted ill-formed UTF-8");
                    return;
                }
            };
            let (keep, _ctl) = spec(&buf, $n);
            let mut got = [false; $n];
            let mut pos = 0usize;
            for piece in strip_str(text) {
                assert!(core::str::from_utf8(piece.as_bytes()).is_ok(), "piece is valid UTF-8");
                assert!(mark(&buf, piece.as_bytes(), &mut pos, &mut got), "piece: inside input, in order, no control byte");
            }
            assert!(same(&got, &keep), "output is exactly the visible text");
            kani::cover!((keep[$n - 1] && !keep[0]) || $n < 2);
            kani::cover!((buf[0] >= 0xC2 && keep[0]) || $n < 2);
            kani::cover!(keep[0]);
        }

        #[kani::proof]
        #[kani::unwind($u)]
        fn $inc() {
            let buf: [u8; $n] = kani::any();
            kani::assume(valid_utf8(&buf));
            let text = match core::str::from_utf8(&buf) {
                Ok(t) => t,
                Err(_) => {
                    assert!(false, "HARNESS-LIMIT: model accepted ill-formed UTF-8");
                    return;
                }
            };
            let (keep, _ctl) = spec(&buf, $n);
            let mut got = [false; $n];
            let mut pos = 0usize;
            let mut st = StripStr::new();
            for piece in st.strip_next(text) {
                assert!(mark(&buf, piece.as_bytes(), &mut pos, &mut got), "piece: inside input, in order, no control byte");
            }
            assert!(same(&got, &keep), "output is exactly the visible text");
            kani::cover!((keep[$n - 1] && !keep[0]) || $n < 2);
            kani::cover!(!keep[0]);
        }
    };
}

str_case!(str_oneshot_1, str_incremental_1, 1, 3);
str_case!(str_oneshot_2, str_incremental_2, 2, 4);
str_case!(str_oneshot_3, str_incremental_3, 3, 5);
str_case!(str_oneshot_4, str_incremental_4, 4, 6);

/// Text adapter inside a string control: `ESC`, an introducer (APC `_`, PM `^`,
/// SOS `X`, DCS `P`, OSC `]`) and one symbolic 2-byte character.  Concrete shape, symbolic
/// values: the 4-byte text query (`str_oneshot_4`) is thorough-only, this slice of it is
/// where a non-ASCII character meets a state in which everything is skipped.
macro_rules! str_in_string_control {
    ($name:ident, $intro:expr) => {
#[kani::proof]
#[kani::unwind(6)]
fn $name() {
    let intro: u8 = $intro;
    let ch: [u8; 2] = kani::any();
    kani::assume(ch[0] >= 0xC2 && ch[0] <= 0xDF && ch[1] >= 0x80 && ch[1] <= 0xBF);
    let buf: [u8; 4] = [0x1B, intro, ch[0], ch[1]];
    let text = match core::str::from_utf8(&buf) {
        Ok(t) => t,
        Err(_) => {
            assert!(false, "HARNESS-LIMIT: shape is not valid UTF-8");
            return;
        }
    };
    let (keep, _ctl) = spec(&buf, 4);
    let mut got = [false; 4];
    let mut pos = 0usize;
    for piece in strip_str(text) {
        assert!(core::str::from_utf8(piece.as_bytes()).is_ok(), "piece is valid UTF-8");
        assert!(mark(&buf, piece.as_bytes(), &mut pos, &mut got), "piece: inside input, in order, no control byte");
    }
    assert!(same(&got, &keep), "output is exactly the visible text");
    kani::cover!(!keep[2] && !keep[3]);
    kani::cover!(ch[1] == 0x85);
}
    };
}
// one query per introducer (a symbolic introducer costs 13 min / 10 GB)
str_in_string_control!(str_in_apc, b'_');
str_in_string_control!(str_in_pm, b'^');
str_in_string_control!(str_in_sos, b'X');
str_in_string_control!(str_in_dcs, b'P');
str_in_string_control!(str_in_osc, b']');

/// Witness of the recorded finding `control-byte-swallowed-by-broken-utf8` (expected to
/// FAIL while the defect is present): DEL right after a dangling lead byte reaches the output.
#[kani::proof]
#[kani::unwind(5)]
fn kf_witness_ctl_in_broken_utf8() {
    let buf: [u8; 2] = [0xC5, 0x7F];
    let mut got = [false; 2];
    let mut pos = 0usize;
    for piece in strip_bytes(&buf) {
        assert!(mark(&buf, piece, &mut pos, &mut got), "piece: inside input, in order, no control byte");
    }
}
