//! C06: the strip stream keeps the `Write` contract under short writes and errors.
//!
//! Single-call lemma from an arbitrary carried state (reached by a symbolic prefix): with
//! the state clause below it extends to any protocol-following sequence of calls by induction.
use crate::blocks;
use crate::common::*;
use anstream::adapter::StripBytes;
use anstream::StripStream;
use std::io::Write as _;

const NEVER: usize = 99;

/// Scripted inner writer.  While not `armed` it accepts everything and records nothing
/// (used to bring the stream into its carried state); once armed, inner call `k` accepts
/// `min(len, accept[k])` bytes, or fails with `kind` when `k == fail_at`.
static mut ARMED: bool = false;

fn arm(on: bool) {
    unsafe { ARMED = on }
}
fn armed() -> bool {
    unsafe { ARMED }
}

struct Script {
    out: Sink<4>,
    calls: usize,
    accept: [usize; 4],
    fail_at: usize,
    kind: std::io::ErrorKind,
}

impl Script {
    fn new(accept: [usize; 4], fail_at: usize, kind: std::io::ErrorKind) -> Self {
        Script {
            out: Sink::new(),
            calls: 0,
            accept,
            fail_at,
            kind,
        }
    }
}

impl std::io::Write for Script {
    fn write(&mut self, buf: &[u8]) -> std::io::Result<usize> {
        if !armed() {
            return Ok(buf.len());
        }
        let k = self.calls;
        self.calls += 1;
        if k == self.fail_at {
            return Err(self.kind.into());
        }
        let cap = if k < 4 { self.accept[k] } else { usize::MAX };
        let n = if buf.len() < cap { buf.len() } else { cap };
        self.out.push_bytes(&buf[..n]);
        Ok(n)
    }
    fn write_all(&mut self, buf: &[u8]) -> std::io::Result<()> {
        if !armed() {
            return Ok(());
        }
        let k = self.calls;
        self.calls += 1;
        if k == self.fail_at {
            return Err(self.kind.into());
        }
        self.out.push_bytes(buf);
        Ok(())
    }
    fn flush(&mut self) -> std::io::Result<()> {
        Ok(())
    }
}

fn any_kind() -> std::io::ErrorKind {
    let k: u8 = kani::any();
    match k % 3 {
        0 => std::io::ErrorKind::Interrupted,
        1 => std::io::ErrorKind::WouldBlock,
        _ => std::io::ErrorKind::Other,
    }
}

/// strip(`buf[..n]`) from `state`, through an independent copy of the adapter.
fn reference<const N: usize>(state: &StripBytes, buf: &[u8; N], n: usize) -> (Sink<4>, StripBytes) {
    let mut st = state.clone();
    let mut out: Sink<4> = Sink::new();
    for piece in st.strip_next(&buf[..n]) {
        out.push_bytes(piece);
    }
    (out, st)
}

macro_rules! write_case {
    ($name:ident, $prefix:expr, $n:expr, $u:literal) => {
        write_case!($name, $prefix, $n, $u, false);
    };
    ($name:ident, $prefix:expr, $n:expr, $u:literal, $two:expr) => {
        write_case!($name, $prefix, $n, $u, $two, None, None);
    };
    ($name:ident, $prefix:expr, $n:expr, $u:literal, $two:expr, $script:expr, $fail:expr) => {
        write_case!($name, $prefix, $n, $u, $two, $script, $fail, None);
    };
    ($name:ident, $prefix:expr, $n:expr, $u:literal, $two:expr, $script:expr, $fail:expr, $cbuf:expr) => {
        /// One `write` of `$n` symbolic bytes from the state carried after the (concrete)
        /// prefix `$prefix`; symbolic accept sizes, one injected error at a symbolic call.
        #[kani::proof]
        #[kani::unwind($u)]
        fn $name() {
            const TWO_RUNS: bool = $two;
            let prefix: &[u8] = $prefix;
            let cbuf: Option<[u8; $n]> = $cbuf;
            let buf: [u8; $n] = match cbuf {
                // concrete buffer (quick tier, two-run shapes): only the error kind is symbolic
                Some(b) => b,
                None => kani::any(),
            };
            if $n == 3 && TWO_RUNS {
                // shape "text, non-whitespace C0 control, text": two printable runs in one call
                kani::assume(buf[1] < 0x20 && !matches!(buf[1], 0x09 | 0x0A | 0x0C | 0x0D));
            }
            let script_opt: Option<[usize; 4]> = $script;
            let fail_opt: Option<usize> = $fail;
            let accept: [usize; 4] = match script_opt {
                // a concrete inner-writer script (quick tier): the buffer stays symbolic
                Some(a) => a,
                None => {
                    let a: [usize; 4] = kani::any();
                    // accept sizes {0, 1, 2, 3, everything}
                    kani::assume(a[0] <= 3 || a[0] == usize::MAX);
                    kani::assume(a[1] <= 3 || a[1] == usize::MAX);
                    kani::assume(a[2] <= 3 || a[2] == usize::MAX);
                    kani::assume(a[3] <= 3 || a[3] == usize::MAX);
                    a
                }
            };
            let fail_at: usize = match fail_opt {
                Some(f) => f,
                None => {
                    let f: usize = kani::any();
                    kani::assume(f < 4 || f == NEVER);
                    f
                }
            };
            let kind = any_kind();
            arm(false);
            let mut script = Script::new(accept, fail_at, kind);
            let (res, after, carried) = {
                let w: &mut (dyn std::io::Write + 'static) = &mut script;
                let mut s = StripStream::new(w);
                assert!(s.write_all(prefix).is_ok());
                let carried = s.verif_state().clone();
                arm(true);
                let res = s.write(&buf);
                (res, s.verif_state().clone(), carried)
            };
            #[cfg(feature = "kf_c01_ctl_in_broken_utf8")]
            {
                // the recorded C01 finding: a control byte right after a dangling UTF-8 lead
                let mut m = vmodels::strip::StripModel::new();
                let mut ctl = false;
                let mut i = 0;
                while i < prefix.len() {
                    let _ = m.step(prefix[i]);
                    i += 1;
                }
                let mut i = 0;
                while i < $n {
                    if m.step(buf[i]) == vmodels::strip::Keep::CtlInBrokenUtf8 {
                        ctl = true;
                    }
                    i += 1;
                }
                kani::assume(!ctl);
            }
            // reference results for every possible count, each computed on a slice of
            // concrete length by an independent copy of the adapter
            let mut want_out: [Sink<4>; $n + 1] = core::array::from_fn(|_| Sink::new());
            let mut want_st: [StripBytes; $n + 1] = core::array::from_fn(|_| carried.clone());
            let mut k = 0;
            while k <= $n {
                let (o, st) = reference(&carried, &buf, k);
                want_out[k] = o;
                want_st[k] = st;
                k += 1;
            }
            match res {
                Ok(n) => {
                    assert!(n <= $n, "count no larger than the buffer");
                    let mut k = 0;
                    while k <= $n {
                        if k == n {
                            assert!(sinks_equal(&script.out, &want_out[k]), "bytes accepted by the inner writer == strip of the consumed prefix");
                            assert!(after == want_st[k], "carried state corresponds to exactly the bytes reported consumed");
                        }
                        k += 1;
                    }
                    if fail_at != NEVER && script.calls > fail_at {
                        // the inner writer failed during this call and the call still reports
                        // progress: allowed only if something had been delivered before
                        assert!(fail_at > 0, "an error at the first inner write is never turned into success");
                    }
                    kani::cover!((n < $n && n > 0) || $n < 2);
                    kani::cover!(n == $n && script.out.len == $n);
                    kani::cover!(n == 0);
                }
                Err(e) => {
                    assert!(fail_at != NEVER && script.calls > fail_at, "no error invented");
                    assert!(e.kind() == kind, "error kind intact");
                    assert!(script.out.len == 0, "an error is reported only if nothing of this buffer was delivered");
                    assert!(after == carried, "after an error the state is as before the call (a retry is safe)");
                    core::mem::forget(e);
                    kani::cover!(fail_at == 0);
                }
            }
        }
    };
}

const ALL: usize = usize::MAX;
// concrete scripts (quick tier): accept-everything, a short write of 0 / 1, an error at the
// first / second inner call -- buffer bytes and error kind symbolic
write_case!(write_s_all_utf8, b"\xe2", 1, 5, false, Some([ALL; 4]), Some(NEVER));
write_case!(write_s_short0_utf8, b"\xe2", 1, 5, false, Some([0, ALL, ALL, ALL]), Some(NEVER));
write_case!(write_s_err0_utf8, b"\xe2", 1, 5, false, Some([ALL; 4]), Some(0));
write_case!(write_s_short0_ground, b"", 1, 5, false, Some([0, ALL, ALL, ALL]), Some(NEVER));
write_case!(write_s_err0_csi, b"\x1b[", 1, 5, false, Some([ALL; 4]), Some(0));
write_case!(write_s_short1_ground2, b"", 2, 5, false, Some([1, ALL, ALL, ALL]), Some(NEVER));
write_case!(write_s_err1_two_runs, b"", 3, 6, true, Some([ALL; 4]), Some(1));
write_case!(write_s_short0_second_run, b"", 3, 6, true, Some([ALL, 0, ALL, ALL]), Some(NEVER));
// two printable runs "a", BEL, "b" with a concrete buffer: the second inner call fails / is short
write_case!(write_c_err1_two_runs, b"", 3, 6, true, Some([ALL; 4]), Some(1), Some([b'a', 0x07, b'b']));
write_case!(write_c_short0_second_run, b"", 3, 6, true, Some([ALL, 0, ALL, ALL]), Some(NEVER), Some([b'a', 0x07, b'b']));
write_case!(write_1_ground, b"", 1, 5);
write_case!(write_1_escape, b"\x1b", 1, 5);
write_case!(write_1_csi, b"\x1b[", 1, 5);
write_case!(write_1_utf8_1, b"\xe2", 1, 5);
write_case!(write_1_utf8_2, b"\xf0\x9f", 1, 5);
write_case!(write_2_ground, b"", 2, 5);
write_case!(write_2_escape, b"\x1b", 2, 5);
write_case!(write_2_csi, b"\x1b[", 2, 5);
write_case!(write_2_osc, b"\x1b]", 2, 5);
write_case!(write_2_utf8_1, b"\xe2", 2, 5);
write_case!(write_2_utf8_2, b"\xf0\x9f", 2, 5);
write_case!(write_3_ground, b"", 3, 6);
write_case!(write_3_two_runs, b"", 3, 6, true);
write_case!(write_3_csi, b"\x1b[", 3, 6);

macro_rules! write_all_case {
    ($name:ident, $fname:ident, $n:expr, $u:literal) => {
        #[kani::proof]
        #[kani::unwind($u)]
        fn $name() {
            let prefix: [u8; 2] = kani::any();
            let buf: [u8; $n] = kani::any();
            let fail_at: usize = kani::any();
            kani::assume(fail_at < 4 || fail_at == NEVER);
            let kind = any_kind();
            arm(false);
            let mut script = Script::new([usize::MAX; 4], fail_at, kind);
            let (res, carried) = {
                let w: &mut (dyn std::io::Write + 'static) = &mut script;
                let mut s = StripStream::new(w);
                assert!(s.write_all(&prefix).is_ok());
                let carried = s.verif_state().clone();
                arm(true);
                (s.write_all(&buf), carried)
            };
            let (want, _st) = reference(&carried, &buf, $n);
            match res {
                Ok(()) => {
                    assert!(fail_at == NEVER || script.calls <= fail_at, "an inner error is never turned into success");
                    assert!(sinks_equal(&script.out, &want), "all of the stripped buffer delivered, in order");
                    kani::cover!(script.calls == 2);
                }
                Err(e) => {
                    assert!(fail_at != NEVER && script.calls > fail_at, "no error invented");
                    assert!(e.kind() == kind, "error kind intact");
                    core::mem::forget(e);
                    kani::cover!(fail_at == 1);
                }
            }
        }

        /// formatted write of two fragments
        #[kani::proof]
        #[kani::unwind($u)]
        fn $fname() {
            let a: [u8; 1] = kani::any();
            let b: [u8; 1] = kani::any();
            kani::assume(a[0] < 0x80 && b[0] < 0x80);
            let fail_at: usize = kani::any();
            kani::assume(fail_at < 3 || fail_at == NEVER);
            let kind = any_kind();
            arm(true);
            let mut script = Script::new([usize::MAX; 4], fail_at, kind);
            let res = {
                let w: &mut (dyn std::io::Write + 'static) = &mut script;
                let mut s = StripStream::new(w);
                let sa = core::str::from_utf8(&a).unwrap();
                let sb = core::str::from_utf8(&b).unwrap();
                s.write_fmt(format_args!("{}{}", sa, sb))
            };
            let both = [a[0], b[0]];
            let (want, _st) = reference(&StripBytes::new(), &both, 2);
            match res {
                Ok(()) => {
                    assert!(fail_at == NEVER || script.calls <= fail_at, "an inner error is never turned into success");
                    assert!(sinks_equal(&script.out, &want), "formatted text delivered stripped, in order");
                    kani::cover!(script.out.len == 2);
                }
                Err(e) => {
                    assert!(fail_at != NEVER && script.calls > fail_at, "no error invented");
                    assert!(e.kind() == kind, "error kind intact through the fmt adapter");
                    core::mem::forget(e);
                    kani::cover!(fail_at == 1);
                }
            }
        }
    };
}

write_all_case!(write_all_2, write_fmt_2, 2, 5);

/// write_vectored: the first non-empty slice is written like `write`.
#[kani::proof]
#[kani::unwind(5)]
fn write_vectored_2() {
    let a: [u8; 1] = kani::any();
    let b: [u8; 2] = kani::any();
    let la: usize = kani::any();
    kani::assume(la <= 1);
    let accept: [usize; 4] = kani::any();
    arm(true);
    let mut script = Script::new(accept, NEVER, std::io::ErrorKind::Other);
    let res = {
        let w: &mut (dyn std::io::Write + 'static) = &mut script;
        let mut s = StripStream::new(w);
        let bufs = [std::io::IoSlice::new(&a[..la]), std::io::IoSlice::new(&b)];
        s.write_vectored(&bufs)
    };
    match res {
        Ok(n) => {
            if la == 1 {
                assert!(n <= 1, "count refers to the first non-empty slice");
                let (want, _) = reference(&StripBytes::new(), &a, n);
                assert!(sinks_equal(&script.out, &want));
            } else {
                assert!(n <= 2);
                let (want, _) = reference(&StripBytes::new(), &b, n);
                assert!(sinks_equal(&script.out, &want));
            }
            kani::cover!(la == 0 && n == 2);
            kani::cover!(la == 1 && n == 1);
        }
        Err(e) => {
            core::mem::forget(e);
            assert!(false, "no error invented");
        }
    }
}
