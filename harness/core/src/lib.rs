//! Kani proof harnesses over the real rust-cli/anstyle crates (path dependencies on
//! /repo's working tree).  Everything is behind `cfg(kani)`; one cargo feature per property.
#![allow(dead_code, unused_imports, clippy::all)]

#[cfg(kani)]
pub mod common;

#[cfg(kani)]
pub mod strip_common;

#[cfg(all(kani, feature = "c01"))]
pub mod c01;
#[cfg(all(kani, feature = "c02"))]
pub mod c02;
#[cfg(all(kani, feature = "c03"))]
pub mod c03;
#[cfg(all(kani, feature = "c05"))]
pub mod c05;
#[cfg(all(kani, feature = "c17"))]
pub mod c17;
#[cfg(all(kani, feature = "c06"))]
pub mod c06;
#[cfg(all(kani, feature = "c07"))]
pub mod c07;
#[cfg(all(kani, feature = "c08"))]
pub mod c08;
#[cfg(all(kani, feature = "c09"))]
pub mod c09;
#[cfg(all(kani, feature = "c10"))]
pub mod c10;
#[cfg(all(kani, feature = "c12"))]
pub mod c12;
#[cfg(all(kani, feature = "c19"))]
pub mod c19;
#[cfg(all(kani, feature = "c13"))]
pub mod c13;
