//! C12: the LS_COLORS parser applies SGR codes left to right.
//!
//! Decimal parsing (`<u8 as FromStr>::from_str`, std) is replaced by a Kani stub that
//! returns the k-th entry of a symbolic code list (or the real `ParseIntError` at a symbolic
//! position), so the crate's own logic -- the all-or-nothing split and the queue-driven
//! interpreter with its look-ahead -- runs on *every* list of codes of the given length.
use crate::common::*;
use vmodels::sgr::{self, Sty, LS};

const KMAX: usize = 8;
static mut CODES: [u8; KMAX] = [0; KMAX];
static mut NEXT: usize = 0;
static mut FAIL_AT: usize = usize::MAX;

pub fn nth_code(_s: &str) -> Result<u8, core::num::ParseIntError> {
    unsafe {
        let i = NEXT;
        NEXT += 1;
        if i == FAIL_AT {
            // the genuine error value std produces for a non-number
            return Err(u8::from_str_radix("x", 10).unwrap_err());
        }
        Ok(if i < KMAX { CODES[i] } else { 0 })
    }
}

macro_rules! ls_case {
    ($name:ident, $k:expr, $skeleton:literal, $unwind:literal) => {
        /// every list of `$k` codes, all fields well-formed numbers
        #[kani::proof]
        #[kani::stub(<u8 as core::str::FromStr>::from_str, nth_code)]
        #[kani::unwind($unwind)]
        fn $name() {
            let codes: [u8; $k] = kani::any();
            unsafe {
                let mut i = 0;
                while i < $k {
                    CODES[i] = codes[i];
                    i += 1;
                }
                NEXT = 0;
                FAIL_AT = usize::MAX;
            }
            let got = anstyle_ls::parse($skeleton);
            assert!(unsafe { NEXT } == $k, "HARNESS-LIMIT: number parsing did not go through the stubbed function once per field");
            let mut vals = [0u16; $k];
            let sub = [false; $k];
            let mut i = 0;
            while i < $k {
                vals[i] = codes[i] as u16;
                i += 1;
            }
            match sgr::apply(Sty::default(), &vals, &sub, $k, LS) {
                Some(m) => {
                    assert!(got.is_some(), "a list of numbers is accepted");
                    if let Some(s) = got {
                        assert!(sty_of(s) == m, "the codes applied in order to the default style");
                    }
                    kani::cover!(m.ul.is_some() || $k < 3);
                    kani::cover!(m.eff != 0 && (m.fg.is_some() || $k < 2));
                    kani::cover!($k < 2 || (codes[$k - 1] == 0 && codes[0] != 0));
                }
                None => {
                    // 21, or 38/48/58 without complete operands: outside what the property fixes
                    // (still must not panic -- Kani's checks cover that)
                    kani::cover!(codes[0] == 38);
                }
            }
        }
    };
}

/// A field that fails to parse (at a concrete position; a symbolic early exit from the
/// split/collect pipeline is something CBMC's allocator model does not survive) rejects the
/// whole list, whatever the other fields are.
macro_rules! ls_reject {
    ($rname:ident, $k:expr, $at:expr, $skeleton:literal, $unwind:literal) => {
        #[kani::proof]
        #[kani::stub(<u8 as core::str::FromStr>::from_str, nth_code)]
        #[kani::unwind($unwind)]
        fn $rname() {
            let codes: [u8; $k] = kani::any();
            unsafe {
                let mut i = 0;
                while i < $k {
                    CODES[i] = codes[i];
                    i += 1;
                }
                NEXT = 0;
                FAIL_AT = $at;
            }
            let got = anstyle_ls::parse($skeleton);
            assert!(unsafe { NEXT } >= 1, "HARNESS-LIMIT: number parsing did not go through the stubbed function");
            assert!(got.is_none(), "a field that is not a number in 0-255 rejects the whole list");
            if let Some(s) = got {
                core::mem::forget(s);
            }
            kani::cover!(codes[0] == 31);
        }
    };
}

ls_case!(ls_codes_1, 1, "1", 6);
ls_case!(ls_codes_2, 2, "1;1", 6);
ls_case!(ls_codes_3, 3, "1;1;1", 6);
ls_case!(ls_codes_4, 4, "1;1;1;1", 7);
ls_case!(ls_codes_5, 5, "1;1;1;1;1", 8);
ls_case!(ls_codes_6, 6, "1;1;1;1;1;1", 9);

// (a failing *first* field makes Kani 0.68's allocator model report a spurious dealloc
// failure in std's collect-into-Option path -- not reproducible natively; rejection of a
// first or only field is checked with the real decimal parser on concrete texts below)
ls_reject!(ls_reject_2_at_1, 2, 1, "1;1", 6);
ls_reject!(ls_reject_3_at_1, 3, 1, "1;1;1", 6);
ls_reject!(ls_reject_3_at_2, 3, 2, "1;1;1", 6);
ls_reject!(ls_reject_4_at_3, 4, 3, "1;1;1;1", 7);

/// Malformed texts through the REAL decimal parser (no stub), one text per query.
macro_rules! reject_text {
    ($name:ident, $text:literal) => {
        #[kani::proof]
        #[kani::unwind(8)]
        fn $name() {
            assert!(anstyle_ls::parse($text).is_none(), "a field that is not a number in 0-255 rejects the whole list");
            kani::cover!(true);
        }
    };
}
reject_text!(ls_reject_text_x, "x");
reject_text!(ls_reject_text_256, "256");
reject_text!(ls_reject_text_space, "1; 2");
reject_text!(ls_reject_text_minus, "-1");

/// The three documented "no style" spellings (concrete).
#[kani::proof]
#[kani::unwind(6)]
fn ls_no_style() {
    assert!(anstyle_ls::parse("").is_none());
    assert!(anstyle_ls::parse("0").is_none());
    assert!(anstyle_ls::parse("00").is_none());
    kani::cover!(true);
}
