//! C09: colour auto-detection follows the documented precedence for every environment.
//!
//! The environment is symbolic: `std::env::var_os` and the terminal test of stdout are
//! Kani stubs returning values chosen by free selectors.
use anstream::AutoStream;
use colorchoice::ColorChoice;
use std::ffi::{OsStr, OsString};

const NO_COLOR: usize = 0;
const CLICOLOR_FORCE: usize = 1;
const CLICOLOR: usize = 2;
const TERM: usize = 3;
const COLORTERM: usize = 4;
const CI: usize = 5;

static mut SEL: [u8; 6] = [0; 6];
static mut TTY: bool = false;
static mut LOOKUPS: usize = 0;

fn value(sel: u8) -> Option<&'static str> {
    match sel {
        0 => None,
        1 => Some(""),
        2 => Some("0"),
        3 => Some("1"),
        4 => Some("dumb"),
        5 => Some("xterm-256color"),
        6 => Some("truecolor"),
        7 => Some("24bit"),
        _ => Some("true"),
    }
}

pub fn stub_var_os<K: AsRef<OsStr>>(key: K) -> Option<OsString> {
    let k = key.as_ref();
    let idx = if k == "NO_COLOR" {
        NO_COLOR
    } else if k == "CLICOLOR_FORCE" {
        CLICOLOR_FORCE
    } else if k == "CLICOLOR" {
        CLICOLOR
    } else if k == "TERM" {
        TERM
    } else if k == "COLORTERM" {
        COLORTERM
    } else if k == "CI" {
        CI
    } else {
        return None;
    };
    unsafe {
        LOOKUPS += 1;
        // one allocation per branch: copying from a *symbolically chosen* literal is something
        // CBMC's memcpy model does not handle faithfully
        match SEL[idx] {
            0 => None,
            1 => Some(OsString::from("")),
            2 => Some(OsString::from("0")),
            3 => Some(OsString::from("1")),
            4 => Some(OsString::from("dumb")),
            5 => Some(OsString::from("xterm-256color")),
            6 => Some(OsString::from("truecolor")),
            7 => Some(OsString::from("24bit")),
            _ => Some(OsString::from("true")),
        }
    }
}

pub fn stub_tty(_s: &std::io::Stdout) -> bool {
    unsafe { TTY }
}

fn any_env() -> [u8; 6] {
    let sel: [u8; 6] = kani::any();
    let mut i = 0;
    while i < 6 {
        kani::assume(sel[i] <= 8);
        i += 1;
    }
    unsafe {
        SEL = sel;
        LOOKUPS = 0;
    }
    sel
}

fn any_choice() -> ColorChoice {
    let g: u8 = kani::any();
    match g % 4 {
        0 => ColorChoice::Auto,
        1 => ColorChoice::AlwaysAnsi,
        2 => ColorChoice::Always,
        _ => ColorChoice::Never,
    }
}

fn set(sel: u8) -> bool {
    sel != 0
}
fn non_empty(sel: u8) -> bool {
    sel >= 2
}

/// The documented decision.
fn expected(global: ColorChoice, sel: &[u8; 6], tty: bool) -> ColorChoice {
    if global != ColorChoice::Auto {
        return global;
    }
    if non_empty(sel[NO_COLOR]) {
        return ColorChoice::Never;
    }
    if non_empty(sel[CLICOLOR_FORCE]) {
        return ColorChoice::Always;
    }
    if sel[CLICOLOR] == 2 {
        return ColorChoice::Never;
    }
    let term_ok = set(sel[TERM]) && sel[TERM] != 4;
    let clicolor_on = set(sel[CLICOLOR]) && sel[CLICOLOR] != 2;
    let ci = set(sel[CI]);
    if tty && (term_ok || clicolor_on || ci) {
        ColorChoice::Always
    } else {
        ColorChoice::Never
    }
}

#[kani::proof]
#[kani::stub(std::env::var_os, stub_var_os)]
#[kani::stub(<std::io::Stdout as is_terminal_polyfill::IsTerminal>::is_terminal, stub_tty)]
#[kani::unwind(16)]
fn decision_stdout() {
    let sel = any_env();
    let tty: bool = kani::any();
    unsafe { TTY = tty };
    let global = any_choice();
    global.write_global();
    assert!(ColorChoice::global() == global, "global choice reads back");
    let out = std::io::stdout();
    let got = AutoStream::choice(&out);
    assert!(got == expected(global, &sel, tty), "documented precedence");
    if global == ColorChoice::Auto {
        assert!(unsafe { LOOKUPS } > 0, "HARNESS-LIMIT: the environment was not read through the stubbed std::env::var_os");
    }
    kani::cover!(global == ColorChoice::Auto && got == ColorChoice::Always && tty && !non_empty(sel[CLICOLOR_FORCE]));
    kani::cover!(global == ColorChoice::Auto && got == ColorChoice::Never && tty && !non_empty(sel[NO_COLOR]) && sel[CLICOLOR] != 2);
    kani::cover!(global == ColorChoice::Auto && non_empty(sel[NO_COLOR]) && non_empty(sel[CLICOLOR_FORCE]));
    kani::cover!(global == ColorChoice::Auto && sel[CLICOLOR] == 2 && non_empty(sel[CLICOLOR_FORCE]));
    core::mem::forget(out);
}

#[kani::proof]
#[kani::stub(std::env::var_os, stub_var_os)]
#[kani::unwind(16)]
fn decision_non_terminal() {
    let sel = any_env();
    let global = any_choice();
    global.write_global();
    let v: Vec<u8> = Vec::new();
    let got = AutoStream::choice(&v);
    assert!(got == expected(global, &sel, false), "documented precedence (an in-memory writer is never a terminal)");
    let s = AutoStream::auto(v);
    let cur = s.current_choice();
    // what the stream does follows the decision: AlwaysAnsi/Always pass through, Never strips
    match expected(global, &sel, false) {
        ColorChoice::Never => assert!(cur == ColorChoice::Never),
        ColorChoice::AlwaysAnsi => assert!(cur == ColorChoice::AlwaysAnsi),
        ColorChoice::Always => assert!(cur == ColorChoice::AlwaysAnsi || cur == ColorChoice::Always),
        ColorChoice::Auto => assert!(false, "auto never comes out of the decision"),
    }
    kani::cover!(global == ColorChoice::Auto && got == ColorChoice::Always);
    kani::cover!(global == ColorChoice::Auto && got == ColorChoice::Never && sel[CI] != 0);
    core::mem::forget(s);
}

#[kani::proof]
#[kani::stub(std::env::var_os, stub_var_os)]
#[kani::unwind(16)]
fn probes() {
    let sel = any_env();
    let c = anstyle_query::clicolor();
    assert!(c == if set(sel[CLICOLOR]) { Some(sel[CLICOLOR] != 2) } else { None }, "CLICOLOR: unset / '0' / anything else");
    assert!(anstyle_query::clicolor_force() == non_empty(sel[CLICOLOR_FORCE]), "CLICOLOR_FORCE: non-empty");
    assert!(anstyle_query::no_color() == non_empty(sel[NO_COLOR]), "NO_COLOR: non-empty");
    let term_ok = set(sel[TERM]) && sel[TERM] != 4;
    assert!(anstyle_query::term_supports_color() == term_ok, "TERM: set and not 'dumb'");
    assert!(anstyle_query::term_supports_ansi_color() == term_ok);
    assert!(anstyle_query::truecolor() == (sel[COLORTERM] == 6 || sel[COLORTERM] == 7), "COLORTERM: truecolor / 24bit");
    assert!(anstyle_query::is_ci() == set(sel[CI]), "CI: set");
    kani::cover!(sel[TERM] == 4);
    kani::cover!(sel[COLORTERM] == 7);
}

#[cfg(feature = "c09clap")]
#[kani::proof]
#[kani::unwind(4)]
fn clap_flag_mapping() {
    use colorchoice_clap::{Color, ColorChoice as Flag};
    let f = |c| Color { color: c }.as_choice();
    assert!(f(Flag::Auto) == ColorChoice::Auto);
    assert!(f(Flag::Always) == ColorChoice::Always);
    assert!(f(Flag::Never) == ColorChoice::Never);
    Color { color: Flag::Never }.write_global();
    assert!(ColorChoice::global() == ColorChoice::Never);
    Color { color: Flag::Always }.write_global();
    assert!(ColorChoice::global() == ColorChoice::Always);
    kani::cover!(true);
}
