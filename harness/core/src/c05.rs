//! C05: rendered styles are pure SGR and round-trip through SGR interpretation.
use crate::common::*;
use anstyle::{Ansi256Color, AnsiColor, Color, Effects, Reset, RgbColor, Style};
use vmodels::sgr::{self, Col, SgrStream, Sty, RENDER};
use vmodels::strip::{Keep, StripModel};

/// Sink that interprets what is rendered, byte by byte, with the reference SGR interpreter
/// and with the strip model (nothing may be visible text).
pub struct SgrSink {
    pub sgr: SgrStream<6>,
    pub strip: StripModel,
    pub visible: usize,
    pub bytes: usize,
    pub too_long: bool,
}

const FRAG_MAX: usize = 24;

impl SgrSink {
    pub fn new(start: Sty) -> Self {
        SgrSink {
            sgr: SgrStream::new(start, RENDER),
            strip: StripModel::new(),
            visible: 0,
            bytes: 0,
            too_long: false,
        }
    }
    /// Constant trip count (fragments are at most 19 bytes: the colour buffer), so the
    /// harness-wide unwind bound does not multiply into this loop.
    fn feed_all(&mut self, s: &[u8]) {
        if s.len() > FRAG_MAX {
            self.too_long = true;
        }
        let mut i = 0;
        while i < FRAG_MAX {
            if i < s.len() {
                self.sgr.feed(s[i]);
                if self.strip.step(s[i]) != Keep::No {
                    self.visible += 1;
                }
                self.bytes += 1;
            }
            i += 1;
        }
    }
}

impl core::fmt::Write for SgrSink {
    fn write_str(&mut self, s: &str) -> core::fmt::Result {
        self.feed_all(s.as_bytes());
        Ok(())
    }
}

impl std::io::Write for SgrSink {
    fn write(&mut self, buf: &[u8]) -> std::io::Result<usize> {
        self.feed_all(buf);
        Ok(buf.len())
    }
    fn write_all(&mut self, buf: &[u8]) -> std::io::Result<()> {
        self.feed_all(buf);
        Ok(())
    }
    fn flush(&mut self) -> std::io::Result<()> {
        Ok(())
    }
}

/// What a terminal holds after the style's codes: a 16-colour underline colour is sent in
/// its 256-colour spelling (there is no 16-colour underline code).
fn expected(s: Style) -> Sty {
    let mut m = sty_of(s);
    if let Some(Col::Ansi(i)) = m.ul {
        m.ul = Some(Col::Idx(i));
    }
    m
}

fn check_roundtrip(sink: &SgrSink, s: Style) {
    assert!(!sink.too_long, "HARNESS-LIMIT: a fragment longer than the sink's loop bound");
    assert!(sink.sgr.finish().is_some(), "output is a sequence of complete SGR sequences only");
    assert!(sink.visible == 0, "stripping the rendered style leaves nothing");
    assert!(sink.sgr.finish() == Some(expected(s)), "interpretation reproduces the style");
}

/// (a)+(c): Display of every style value interprets back to exactly that style.
#[kani::proof]
#[kani::unwind(14)]
fn display_roundtrip_full() {
    use core::fmt::Write as _;
    let s = any_style();
    let mut sink = SgrSink::new(Sty::default());
    let _ = write!(sink, "{}", s);
    check_roundtrip(&sink, s);
    let mut sink2 = SgrSink::new(Sty::default());
    let _ = write!(sink2, "{}", s.render());
    check_roundtrip(&sink2, s);
    assert!(sink.bytes == sink2.bytes);
    kani::cover!(s.get_effects() == effects_from_bits(0xFFF) && s.get_fg_color().is_some());
    kani::cover!(matches!(s.get_underline_color(), Some(Color::Ansi(_))));
    kani::cover!(matches!(s.get_bg_color(), Some(Color::Rgb(_))));
    kani::cover!(s.is_plain() && sink.bytes == 0);
}

/// (e): the io::Write path interprets back to the same style as well.
#[kani::proof]
#[kani::unwind(14)]
fn write_to_roundtrip_full() {
    let s = any_style();
    let mut sink = SgrSink::new(Sty::default());
    let r = s.write_to(&mut sink);
    assert!(r.is_ok());
    check_roundtrip(&sink, s);
    kani::cover!(matches!(s.get_fg_color(), Some(Color::Ansi256(_))));
    kani::cover!(!s.get_effects().is_plain());
}

/// Colour-only rendering entry points.
#[kani::proof]
#[kani::unwind(14)]
fn color_render_fg_bg() {
    use core::fmt::Write as _;
    let c = any_color();
    let mut sink = SgrSink::new(Sty::default());
    let _ = write!(sink, "{}", c.render_fg());
    check_roundtrip(&sink, Style::new().fg_color(Some(c)));
    let mut sink = SgrSink::new(Sty::default());
    let _ = write!(sink, "{}", c.render_bg());
    check_roundtrip(&sink, Style::new().bg_color(Some(c)));
    // the per-kind entry points agree with the enum's
    match c {
        Color::Ansi(a) => {
            let mut k = SgrSink::new(Sty::default());
            let _ = write!(k, "{}{}", a.render_fg(), a.render_bg());
            check_roundtrip(&k, Style::new().fg_color(Some(c)).bg_color(Some(c)));
        }
        Color::Ansi256(a) => {
            let mut k = SgrSink::new(Sty::default());
            let _ = write!(k, "{}{}", a.render_fg(), a.render_bg());
            check_roundtrip(&k, Style::new().fg_color(Some(c)).bg_color(Some(c)));
        }
        Color::Rgb(a) => {
            let mut k = SgrSink::new(Sty::default());
            let _ = write!(k, "{}{}", a.render_fg(), a.render_bg());
            check_roundtrip(&k, Style::new().fg_color(Some(c)).bg_color(Some(c)));
        }
    }
    kani::cover!(matches!(c, Color::Rgb(RgbColor(255, 0, 7))));
    kani::cover!(matches!(c, Color::Ansi256(Ansi256Color(9))));
}

/// (b): effects alone.
#[kani::proof]
#[kani::unwind(14)]
fn effects_render() {
    use core::fmt::Write as _;
    let e = effects_from_bits(any_effect_bits());
    let mut sink = SgrSink::new(Sty::default());
    let _ = write!(sink, "{}", e.render());
    check_roundtrip(&sink, Style::new().effects(e));
    assert!(sink.sgr.seqs as u32 == effects_bits(e).count_ones(), "one sequence per effect");
    kani::cover!(sink.sgr.seqs == 12);
    kani::cover!(sink.sgr.seqs == 1);
}

/// (d): the reset form: empty exactly for the plain style, otherwise returns any terminal
/// state to default.
#[kani::proof]
#[kani::unwind(14)]
fn reset_forms() {
    use core::fmt::Write as _;
    let s = any_style();
    let before = sty_of(any_style());
    let mut sink = SgrSink::new(before);
    let _ = write!(sink, "{:#}", s);
    assert!(sink.sgr.finish().is_some() && sink.visible == 0);
    assert!((sink.bytes == 0) == s.is_plain(), "reset is empty exactly when the style is plain");
    if !s.is_plain() {
        assert!(sink.sgr.finish() == Some(Sty::default()), "reset returns the terminal to default");
    }
    let mut sink2 = SgrSink::new(before);
    let _ = write!(sink2, "{}", s.render_reset());
    assert!(sink2.bytes == sink.bytes && sink2.sgr.finish() == sink.sgr.finish());
    let mut sink3 = SgrSink::new(before);
    assert!(s.write_reset_to(&mut sink3).is_ok());
    assert!(sink3.bytes == sink.bytes && sink3.sgr.finish() == sink.sgr.finish());
    let mut r = SgrSink::new(before);
    let _ = write!(r, "{}{}", Reset, Reset.render());
    assert!(r.sgr.finish() == Some(Sty::default()) && r.sgr.seqs == 2 && r.visible == 0);
    kani::cover!(s.is_plain());
    kani::cover!(!s.is_plain() && before.eff != 0);
}

/// (e) byte equality of the Display path and the io::Write path, and (f) of every flagged
/// form with the unflagged one, on the shape "one effect + one colour in one slot" (all
/// values symbolic).  Full styles are covered by interpretation above.
fn small_style() -> Style {
    let i: usize = kani::any();
    kani::assume(i < 12);
    let c = any_color();
    let slot: u8 = kani::any();
    let s = Style::new().effects(EFFECTS[i]);
    match slot % 3 {
        0 => s.fg_color(Some(c)),
        1 => s.bg_color(Some(c)),
        _ => s.underline_color(Some(c)),
    }
}

#[kani::proof]
#[kani::unwind(14)]
fn display_equals_write_to_bytes() {
    use core::fmt::Write as _;
    let s = small_style();
    let mut a: Sink<32> = Sink::new();
    let _ = write!(a, "{}", s);
    let mut b: Sink<32> = Sink::new();
    assert!(s.write_to(&mut b).is_ok());
    assert!(!a.overflow && !b.overflow);
    assert!(sinks_equal(&a, &b), "Display and write_to produce the same bytes");
    kani::cover!(a.len > 20);
}

macro_rules! flag_case {
    ($name:ident, $($fmt:literal),+) => {
        #[kani::proof]
        #[kani::unwind(14)]
        fn $name() {
            use core::fmt::Write as _;
            let s = small_style();
            let mut plain: Sink<32> = Sink::new();
            let _ = write!(plain, "{}", s);
            let mut plain_reset: Sink<32> = Sink::new();
            let _ = write!(plain_reset, "{:#}", s);
            $(
                let mut f: Sink<32> = Sink::new();
                let _ = write!(f, $fmt, s);
                assert!(!f.overflow);
                if $fmt.contains('#') {
                    assert!(sinks_equal(&f, &plain_reset), concat!("flags change nothing: ", $fmt));
                } else {
                    assert!(sinks_equal(&f, &plain), concat!("flags change nothing: ", $fmt));
                }
            )+
            kani::cover!(plain.len > 20);
        }
    };
}

flag_case!(flags_width, "{:10}", "{:<10}", "{:>12}", "{:^7}");
flag_case!(flags_fill, "{:*^7}", "{:-<30}", "{:0>8}", "{:08}");
flag_case!(flags_precision, "{:.2}", "{:.0}", "{:10.3}", "{:>5.1}");
flag_case!(flags_alternate, "{:#10}", "{:#.1}", "{:>#12.3}", "{:#<2}");
flag_case!(flags_alternate2, "{:*^#9}", "{:#.0}", "{:#30}", "{:+#1}");
flag_case!(flags_misc, "{:+}", "{:1}", "{:31}", "{:<1.40}");
