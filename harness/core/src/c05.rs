//! C05: rendered styles are pure SGR and round-trip through SGR interpretation.
use crate::blocks;
use crate::common::*;
use anstyle::{Ansi256Color, AnsiColor, Color, Effects, Reset, RgbColor, Style};
use vmodels::sgr::{self, Col, SgrTok, Sty, Tok, RENDER};
use vmodels::strip::{Keep, StripModel};

const FRAG_MAX: usize = 24;

/// Sink that interprets what is rendered with the reference SGR interpreter.  Bytes are
/// tokenised one by one; a completed parameter list is applied once at the end of the
/// fragment it completed in (the tokeniser state carries over fragment boundaries, so
/// the fragmentation chosen by the implementation does not matter).
pub struct SgrSink {
    pub sty: Sty,
    tok: SgrTok<6>,
    /// anything that is not pure, complete, well-formed SGR was seen
    pub bad: bool,
    /// harness limits hit (fragment longer than FRAG_MAX, two sequences ending in one fragment)
    pub limit: bool,
    pub seqs: usize,
    pub bytes: usize,
    /// optional strip model: how many bytes would survive stripping
    strip: Option<StripModel>,
    pub visible: usize,
}

impl SgrSink {
    pub fn new(start: Sty) -> Self {
        SgrSink {
            sty: start,
            tok: SgrTok::new(),
            bad: false,
            limit: false,
            seqs: 0,
            bytes: 0,
            strip: None,
            visible: 0,
        }
    }
    pub fn with_strip(start: Sty) -> Self {
        let mut s = Self::new(start);
        s.strip = Some(StripModel::new());
        s
    }
    fn fragment(&mut self, s: &[u8]) {
        if s.len() > FRAG_MAX {
            self.limit = true;
        }
        let mut pending = false;
        let mut vals = [0u16; 6];
        let mut sub = [false; 6];
        let mut n = 0usize;
        blocks!(FRAG_MAX, i, {
            if i < s.len() {
                self.bytes += 1;
                match self.tok.feed(s[i]) {
                    Tok::More => {}
                    Tok::Bad => self.bad = true,
                    Tok::Complete => {
                        if pending {
                            self.limit = true;
                        }
                        pending = true;
                        vals = self.tok.vals;
                        sub = self.tok.sub;
                        n = self.tok.n;
                    }
                }
                if let Some(m) = self.strip.as_mut() {
                    if m.step(s[i]) != Keep::No {
                        self.visible += 1;
                    }
                }
            }
        });
        if pending {
            self.seqs += 1;
            match sgr::apply(self.sty, &vals, &sub, n, RENDER) {
                Some(t) => self.sty = t,
                None => self.bad = true,
            }
        }
    }
    /// The style in effect after everything written, if it was pure and complete SGR.
    pub fn finish(&self) -> Option<Sty> {
        if self.bad || !self.tok.idle() {
            None
        } else {
            Some(self.sty)
        }
    }
}

impl core::fmt::Write for SgrSink {
    fn write_str(&mut self, s: &str) -> core::fmt::Result {
        self.fragment(s.as_bytes());
        Ok(())
    }
}

impl std::io::Write for SgrSink {
    fn write(&mut self, buf: &[u8]) -> std::io::Result<usize> {
        self.fragment(buf);
        Ok(buf.len())
    }
    fn write_all(&mut self, buf: &[u8]) -> std::io::Result<()> {
        self.fragment(buf);
        Ok(())
    }
    fn flush(&mut self) -> std::io::Result<()> {
        Ok(())
    }
}

/// What a terminal holds after the style's codes: a 16-colour underline colour is sent in
/// its 256-colour spelling (there is no 16-colour underline code).
fn expected(s: Style) -> Sty {
    let mut m = sty_of(s);
    if let Some(Col::Ansi(i)) = m.ul {
        m.ul = Some(Col::Idx(i));
    }
    m
}

fn check_roundtrip(sink: &SgrSink, s: Style) {
    assert!(!sink.limit, "HARNESS-LIMIT: fragment longer than the sink's loop bound or two sequences in one fragment");
    assert!(sink.finish().is_some(), "output consists of complete SGR sequences only");
    assert!(sink.finish() == Some(expected(s)), "interpretation reproduces the style");
}

fn slot_style(slot: u8, c: Color) -> Style {
    match slot {
        0 => Style::new().fg_color(Some(c)),
        1 => Style::new().bg_color(Some(c)),
        _ => Style::new().underline_color(Some(c)),
    }
}

/// Captures the output as a list of fragments (one per `write_str` / `write_all` call).
pub struct Frags<const F: usize> {
    pub f: [Sink<20>; F],
    pub n: usize,
    pub too_many: bool,
}

impl<const F: usize> Frags<F> {
    pub fn new() -> Self {
        Frags {
            f: core::array::from_fn(|_| Sink::new()),
            n: 0,
            too_many: false,
        }
    }
    fn push(&mut self, s: &[u8]) {
        if s.is_empty() {
            return;
        }
        if self.n < F {
            self.f[self.n].push_bytes(s);
            self.n += 1;
        } else {
            self.too_many = true;
        }
    }
    pub fn sound(&self) -> bool {
        let mut ok = !self.too_many;
        let mut i = 0;
        while i < F {
            ok &= !self.f[i].overflow;
            i += 1;
        }
        ok
    }
    pub fn total(&self) -> usize {
        let mut t = 0;
        let mut i = 0;
        while i < F {
            t += self.f[i].len;
            i += 1;
        }
        t
    }
}

impl<const F: usize> core::fmt::Write for Frags<F> {
    fn write_str(&mut self, s: &str) -> core::fmt::Result {
        self.push(s.as_bytes());
        Ok(())
    }
}

impl<const F: usize> std::io::Write for Frags<F> {
    fn write(&mut self, buf: &[u8]) -> std::io::Result<usize> {
        self.push(buf);
        Ok(buf.len())
    }
    fn write_all(&mut self, buf: &[u8]) -> std::io::Result<()> {
        self.push(buf);
        Ok(())
    }
    fn flush(&mut self) -> std::io::Result<()> {
        Ok(())
    }
}

fn frags_equal<const F: usize>(a: &Frags<F>, b: &Frags<F>) -> bool {
    let mut ok = a.n == b.n;
    let mut i = 0;
    while i < F {
        ok &= sinks_equal(&a.f[i], &b.f[i]);
        i += 1;
    }
    ok
}

/// Interpret a captured text holding at most ONE SGR sequence from `start`; also count
/// what the strip model would keep.  The parameter list is applied once, after the scan
/// (applying inside the scan would put the interpreter under every byte position).
/// Returns (style or None if not pure/complete SGR, visible bytes, sequences seen).
fn interpret<const N: usize>(start: Sty, text: &Sink<N>) -> (Option<Sty>, usize, usize) {
    let mut tok: SgrTok<6> = SgrTok::new();
    let mut strip = StripModel::new();
    let mut bad = false;
    let mut visible = 0usize;
    let mut seqs = 0usize;
    let mut vals = [0u16; 6];
    let mut sub = [false; 6];
    let mut n = 0usize;
    blocks!(N, i, {
        if i < text.len {
            match tok.feed(text.buf[i]) {
                Tok::More => {}
                Tok::Bad => bad = true,
                Tok::Complete => {
                    seqs += 1;
                    vals = tok.vals;
                    sub = tok.sub;
                    n = tok.n;
                }
            }
            if strip.step(text.buf[i]) != Keep::No {
                visible += 1;
            }
        }
    });
    assert!(seqs <= 1, "HARNESS-LIMIT: more than one sequence in a single-part rendering");
    let mut sty = Some(start);
    if seqs == 1 {
        sty = sgr::apply(start, &vals, &sub, n, RENDER);
    }
    if bad || !tok.idle() {
        sty = None;
    }
    (sty, visible, seqs)
}

/// One colour in one slot: every colour (16 + 256 + 2^24), interpreted and stripped; the
/// io::Write path and `render()` produce the same bytes.
macro_rules! slot_case {
    ($name:ident, $slot:expr) => {
        #[kani::proof]
        #[kani::unwind(22)]
        fn $name() {
            use core::fmt::Write as _;
            let c = any_color();
            let s = slot_style($slot, c);
            let mut a: Sink<20> = Sink::new();
            let _ = write!(a, "{}", s);
            assert!(!a.overflow, "a colour code fits 19 bytes");
            let (got, visible, _seqs) = interpret(Sty::default(), &a);
            assert!(got.is_some(), "output consists of complete SGR sequences only");
            assert!(got == Some(expected(s)), "interpretation reproduces the style");
            assert!(visible == 0, "stripping the rendered style leaves nothing");
            let mut b: Sink<20> = Sink::new();
            let _ = write!(b, "{}", s.render());
            assert!(sinks_equal(&a, &b), "render() equals Display");
            let mut w: Sink<20> = Sink::new();
            assert!(s.write_to(&mut w).is_ok());
            assert!(sinks_equal(&a, &w), "write_to equals Display");
            kani::cover!(matches!(c, Color::Rgb(RgbColor(255, 0, 7))));
            kani::cover!(matches!(c, Color::Ansi256(Ansi256Color(9))));
            kani::cover!(matches!(c, Color::Ansi(AnsiColor::BrightBlue)));
        }
    };
}
slot_case!(slot_fg, 0);
slot_case!(slot_bg, 1);
slot_case!(slot_underline, 2);

/// Colour-only rendering entry points of every colour type equal the style's rendering.
#[kani::proof]
#[kani::unwind(22)]
fn color_render_fg_bg() {
    use core::fmt::Write as _;
    let c = any_color();
    let mut fg: Sink<20> = Sink::new();
    let _ = write!(fg, "{}", Style::new().fg_color(Some(c)));
    let mut bg: Sink<20> = Sink::new();
    let _ = write!(bg, "{}", Style::new().bg_color(Some(c)));
    let mut a: Sink<20> = Sink::new();
    let _ = write!(a, "{}", c.render_fg());
    let mut b: Sink<20> = Sink::new();
    let _ = write!(b, "{}", c.render_bg());
    assert!(sinks_equal(&a, &fg) && sinks_equal(&b, &bg), "Color::render_fg/bg");
    let mut a: Sink<20> = Sink::new();
    let mut b: Sink<20> = Sink::new();
    match c {
        Color::Ansi(x) => {
            let _ = write!(a, "{}", x.render_fg());
            let _ = write!(b, "{}", x.render_bg());
        }
        Color::Ansi256(x) => {
            let _ = write!(a, "{}", x.render_fg());
            let _ = write!(b, "{}", x.render_bg());
        }
        Color::Rgb(x) => {
            let _ = write!(a, "{}", x.render_fg());
            let _ = write!(b, "{}", x.render_bg());
        }
    }
    assert!(sinks_equal(&a, &fg) && sinks_equal(&b, &bg), "per-type render_fg/bg");
    kani::cover!(matches!(c, Color::Rgb(_)));
    kani::cover!(matches!(c, Color::Ansi(_)));
}

/// Each of the twelve effects alone (concrete): interprets to exactly that effect.
macro_rules! effects_single_case {
    ($name:ident, $from:expr, $to:expr) => {
        #[kani::proof]
        #[kani::unwind(22)]
        fn $name() {
            use core::fmt::Write as _;
            let mut i = $from;
            while i < $to {
                let s = Style::new().effects(EFFECTS[i]);
                let mut a: Sink<8> = Sink::new();
                let _ = write!(a, "{}", s);
                assert!(!a.overflow);
                let (got, visible, _seqs) = interpret(Sty::default(), &a);
                assert!(got == Some(expected(s)), "a single effect interprets to exactly that effect");
                assert!(visible == 0);
                let mut b: Sink<8> = Sink::new();
                let _ = write!(b, "{}", EFFECTS[i].render());
                let mut w: Sink<8> = Sink::new();
                assert!(s.write_to(&mut w).is_ok());
                assert!(sinks_equal(&a, &b) && sinks_equal(&a, &w));
                i += 1;
            }
            kani::cover!(i == $to);
        }
    };
}
effects_single_case!(effects_single_0_3, 0, 3);
effects_single_case!(effects_single_3_6, 3, 6);
effects_single_case!(effects_single_6_9, 6, 9);
effects_single_case!(effects_single_9_12, 9, 12);

/// Sink that recognises each fragment as the rendering of one part (one effect, or the
/// colour of one slot) and checks presence and order.  The parts' renderings are taken
/// from the real code (single-part styles), whose interpretation `slot_*` and
/// `effects_single` establish; interpretation is compositional over complete sequences.
struct Parts<'a> {
    eff: &'a [Sink<8>; 12],
    col: [Option<&'a Sink<20>>; 3],
    last_eff: i32,
    seen_eff: u16,
    /// number of colour slots passed (0..=3)
    stage: usize,
    seen_col: [bool; 3],
    ok: bool,
    unmatched: bool,
}

fn frag_eq<const N: usize>(s: &[u8], r: &Sink<N>) -> bool {
    if s.len() != r.len {
        return false;
    }
    let mut same = true;
    blocks!(N, i, {
        if i < r.len && i < s.len() && s[i] != r.buf[i] {
            same = false;
        }
    });
    same
}

impl<'a> Parts<'a> {
    fn new(eff: &'a [Sink<8>; 12], col: [Option<&'a Sink<20>>; 3]) -> Self {
        Parts {
            eff,
            col,
            last_eff: -1,
            seen_eff: 0,
            stage: 0,
            seen_col: [false; 3],
            ok: true,
            unmatched: false,
        }
    }
    fn fragment(&mut self, s: &[u8]) {
        if s.is_empty() {
            return;
        }
        let mut matched = false;
        let mut k = 0;
        while k < 12 {
            if !matched && frag_eq(s, &self.eff[k]) {
                matched = true;
                // effects come first, in declaration order, each once
                if self.stage != 0 || (k as i32) <= self.last_eff {
                    self.ok = false;
                }
                self.last_eff = k as i32;
                self.seen_eff |= 1 << k;
            }
            k += 1;
        }
        let mut j = 0;
        while j < 3 {
            if !matched {
                if let Some(r) = self.col[j] {
                    if frag_eq(s, r) {
                        matched = true;
                        if j < self.stage {
                            self.ok = false;
                        }
                        self.stage = j + 1;
                        self.seen_col[j] = true;
                    }
                }
            }
            j += 1;
        }
        if !matched {
            self.unmatched = true;
        }
    }
}

impl core::fmt::Write for Parts<'_> {
    fn write_str(&mut self, s: &str) -> core::fmt::Result {
        self.fragment(s.as_bytes());
        Ok(())
    }
}

impl std::io::Write for Parts<'_> {
    fn write(&mut self, buf: &[u8]) -> std::io::Result<usize> {
        self.fragment(buf);
        Ok(buf.len())
    }
    fn write_all(&mut self, buf: &[u8]) -> std::io::Result<()> {
        self.fragment(buf);
        Ok(())
    }
    fn flush(&mut self) -> std::io::Result<()> {
        Ok(())
    }
}

fn effect_refs() -> [Sink<8>; 12] {
    use core::fmt::Write as _;
    let mut refs: [Sink<8>; 12] = core::array::from_fn(|_| Sink::new());
    let mut i = 0;
    while i < 12 {
        let _ = write!(refs[i], "{}", Style::new().effects(EFFECTS[i]));
        i += 1;
    }
    refs
}

fn check_parts(p: &Parts<'_>, s: Style) {
    assert!(!p.unmatched, "output is the concatenation of the renderings of the style's parts");
    assert!(p.ok, "parts in order: effects by declaration, then fg, bg, underline");
    assert!(p.seen_eff == effects_bits(s.get_effects()), "exactly the style's effects");
    assert!(p.seen_col[0] == s.get_fg_color().is_some(), "foreground rendered iff set");
    assert!(p.seen_col[1] == s.get_bg_color().is_some(), "background rendered iff set");
    assert!(p.seen_col[2] == s.get_underline_color().is_some(), "underline colour rendered iff set");
}

macro_rules! structure_case {
    ($name:ident, $render:expr) => {
        structure_case!($name, $render, 9, 9, 9);
    };
    ($name:ident, $render:expr, $kf:expr, $kb:expr, $ku:expr) => {
        structure_case!($name, $render, $kf, $kb, $ku, None);
    };
    ($name:ident, $render:expr, $kf:expr, $kb:expr, $ku:expr, $fx:expr) => {
        /// Whole styles, everything symbolic: the output is the in-order concatenation of
        /// the renderings of exactly the parts the style has.
        #[kani::proof]
        #[kani::unwind(22)]
        fn $name() {
            use core::fmt::Write as _;
            // kind 9: any colour kind; 0/1/2: 16-colour / 256-colour / RGB (concrete shape)
            let pick = |k: u8| -> Option<Color> {
                if !kani::any::<bool>() {
                    None
                } else if k == 9 {
                    Some(any_color())
                } else {
                    Some(kind_color(k))
                }
            };
            let s = Style::new()
                .fg_color(pick($kf))
                .bg_color(pick($kb))
                .underline_color(pick($ku))
                .effects(effects_from_bits(match $fx {
                    // a concrete effect set (quick tier; `effects_structure` covers every set)
                    Some(bits) => bits,
                    None => any_effect_bits(),
                }));
            let eff = effect_refs();
            let mut cols: [Sink<20>; 3] = core::array::from_fn(|_| Sink::new());
            if let Some(c) = s.get_fg_color() {
                let _ = write!(cols[0], "{}", slot_style(0, c));
            }
            if let Some(c) = s.get_bg_color() {
                let _ = write!(cols[1], "{}", slot_style(1, c));
            }
            if let Some(c) = s.get_underline_color() {
                let _ = write!(cols[2], "{}", slot_style(2, c));
            }
            let col = [
                s.get_fg_color().map(|_| &cols[0]),
                s.get_bg_color().map(|_| &cols[1]),
                s.get_underline_color().map(|_| &cols[2]),
            ];
            let mut p = Parts::new(&eff, col);
            let render: fn(&mut Parts<'_>, Style) = $render;
            render(&mut p, s);
            check_parts(&p, s);
            kani::cover!(p.seen_col[0] && p.seen_col[1] && p.seen_col[2]);
            kani::cover!(!p.seen_col[0] && !p.seen_col[1] && !p.seen_col[2]);
            kani::cover!(p.seen_col[2] && !p.seen_col[0]);
        }
    };
}
structure_case!(style_structure_display, |p, s| {
    use core::fmt::Write as _;
    let _ = write!(p, "{}", s);
});
structure_case!(style_structure_render, |p, s| {
    use core::fmt::Write as _;
    let _ = write!(p, "{}", s.render());
});
structure_case!(style_structure_write_to, |p, s| {
    assert!(s.write_to(p).is_ok());
});
// concrete effect set + any colour of any kind in any subset of the slots (quick tier)
structure_case!(style_structure_display_fx, |p, s| {
    use core::fmt::Write as _;
    let _ = write!(p, "{}", s);
}, 9, 9, 9, Some(0b1000_0000_1001u16));
structure_case!(style_structure_write_to_fx, |p, s| {
    assert!(s.write_to(p).is_ok());
}, 9, 9, 9, Some(0b0100_0001_0010u16));
// concrete colour kinds per slot (everything else symbolic)
structure_case!(style_structure_display_k012, |p, s| {
    use core::fmt::Write as _;
    let _ = write!(p, "{}", s);
}, 0, 1, 2);
structure_case!(style_structure_display_k120, |p, s| {
    use core::fmt::Write as _;
    let _ = write!(p, "{}", s);
}, 1, 2, 0);
structure_case!(style_structure_write_to_k201, |p, s| {
    assert!(s.write_to(p).is_ok());
}, 2, 0, 1);
structure_case!(style_structure_write_to_k012, |p, s| {
    assert!(s.write_to(p).is_ok());
}, 0, 1, 2);

/// Effects alone through `Effects::render`.
#[kani::proof]
#[kani::unwind(22)]
fn effects_structure() {
    use core::fmt::Write as _;
    let e = effects_from_bits(any_effect_bits());
    let eff = effect_refs();
    let mut p = Parts::new(&eff, [None, None, None]);
    let _ = write!(p, "{}", e.render());
    check_parts(&p, Style::new().effects(e));
    kani::cover!(p.seen_eff == 0xFFF);
    kani::cover!(p.seen_eff.count_ones() == 1);
}

/// The reset form: empty exactly for the plain style, otherwise `ESC[0m`-equivalent.
#[kani::proof]
#[kani::unwind(22)]
fn reset_forms() {
    use core::fmt::Write as _;
    let s = any_style();
    let before = sty_of(any_style());
    let mut a: Sink<8> = Sink::new();
    let _ = write!(a, "{:#}", s);
    assert!(!a.overflow);
    assert!((a.len == 0) == s.is_plain(), "reset is empty exactly when the style is plain");
    let (got, visible, _seqs) = interpret(before, &a);
    assert!(got.is_some() && visible == 0, "reset is pure SGR");
    if !s.is_plain() {
        assert!(got == Some(Sty::default()), "reset returns the terminal to default");
    }
    let mut b: Sink<8> = Sink::new();
    let _ = write!(b, "{}", s.render_reset());
    let mut w: Sink<8> = Sink::new();
    assert!(s.write_reset_to(&mut w).is_ok());
    assert!(sinks_equal(&a, &b) && sinks_equal(&a, &w), "the three reset paths agree");
    let mut r: Sink<8> = Sink::new();
    let _ = write!(r, "{}", Reset);
    let (got, visible, _seqs) = interpret(before, &r);
    assert!(got == Some(Sty::default()) && visible == 0, "Reset returns the terminal to default");
    let mut r2: Sink<8> = Sink::new();
    let _ = write!(r2, "{}", Reset.render());
    assert!(sinks_equal(&r, &r2));
    kani::cover!(s.is_plain());
    kani::cover!(!s.is_plain() && before.eff != 0);
}

/// Format flags: every flagged form produces the same fragments as the unflagged one (no
/// padding, fill, truncation).  Shape: two concrete effects + symbolic colours in the
/// foreground and underline slots, no background.
fn flag_style() -> Style {
    Style::new()
        .effects(Effects::BOLD | Effects::STRIKETHROUGH)
        .fg_color(Some(any_color()))
        .underline_color(Some(Color::Ansi256(Ansi256Color(kani::any()))))
}

macro_rules! flag_case {
    ($name:ident, $(($label:ident, $fmt:literal)),+) => {
        #[kani::proof]
        #[kani::unwind(22)]
        fn $name() {
            use core::fmt::Write as _;
            let s = flag_style();
            let mut plain: Frags<6> = Frags::new();
            let _ = write!(plain, "{}", s);
            let mut plain_reset: Frags<6> = Frags::new();
            let _ = write!(plain_reset, "{:#}", s);
            assert!(plain.sound() && plain_reset.sound());
            $(
                let mut f: Frags<6> = Frags::new();
                let _ = write!(f, $fmt, s);
                assert!(f.sound(), concat!("flags add nothing, format ", stringify!($label)));
                if $fmt.contains('#') {
                    assert!(frags_equal(&f, &plain_reset), concat!("flags change nothing, format ", stringify!($label)));
                } else {
                    assert!(frags_equal(&f, &plain), concat!("flags change nothing, format ", stringify!($label)));
                }
            )+
            kani::cover!(plain.n == 4 && plain_reset.n == 1);
        }
    };
}

flag_case!(flags_width, (f_10, "{:10}"), (f_left10, "{:<10}"), (f_right12, "{:>12}"), (f_center7, "{:^7}"));
flag_case!(flags_fill, (f_starcenter7, "{:*^7}"), (f_dashleft11, "{:-<11}"), (f_0right8, "{:0>8}"), (f_08, "{:08}"));
flag_case!(flags_precision, (f_p2, "{:.2}"), (f_p0, "{:.0}"), (f_10p3, "{:10.3}"), (f_right5p1, "{:>5.1}"));
flag_case!(flags_alternate, (f_alt10, "{:#10}"), (f_altp1, "{:#.1}"), (f_rightalt12p3, "{:>#12.3}"), (f_leftalt2, "{:<#2}"));
flag_case!(flags_alternate2, (f_starcenteralt9, "{:*^#9}"), (f_altp0, "{:#.0}"), (f_alt12, "{:#12}"), (f_plusalt1, "{:+#1}"));
flag_case!(flags_misc, (f_plus, "{:+}"), (f_1, "{:1}"), (f_9, "{:9}"), (f_left1p12, "{:<1.12}"));

/// The plain style under flags: nothing at all may be written.
#[kani::proof]
#[kani::unwind(22)]
fn flags_plain_style() {
    use core::fmt::Write as _;
    let mut f: Frags<6> = Frags::new();
    let _ = write!(f, "{:10}{:#10}{:*^7}{:#.1}", Style::new(), Style::new(), Style::new(), Style::new());
    assert!(f.n == 0 && !f.too_many, "a plain style renders nothing whatever the flags");
    kani::cover!(f.n == 0);
}

/// Slow, fragmentation-independent cross-check of whole styles (thorough tier and
/// fall-back when a structural query fails): interpret everything that is written.
fn kind_color(kind: u8) -> Color {
    match kind {
        0 => Color::Ansi(any_ansi()),
        1 => Color::Ansi256(Ansi256Color(kani::any())),
        _ => Color::Rgb(RgbColor(kani::any(), kani::any(), kani::any())),
    }
}

macro_rules! full_case {
    ($disp:ident, $kf:expr, $kb:expr, $ku:expr, $bits:expr) => {
        #[kani::proof]
        #[kani::unwind(14)]
        fn $disp() {
            use core::fmt::Write as _;
            let s = Style::new()
                .fg_color(Some(kind_color($kf)))
                .bg_color(Some(kind_color($kb)))
                .underline_color(Some(kind_color($ku)))
                .effects(effects_from_bits($bits));
            let mut sink = SgrSink::new(Sty::default());
            let _ = write!(sink, "{}", s);
            check_roundtrip(&sink, s);
            let mut w = SgrSink::new(Sty::default());
            assert!(s.write_to(&mut w).is_ok());
            check_roundtrip(&w, s);
            kani::cover!(sink.bytes > 30);
        }
    };
}
full_case!(full_interpret_ansi_rgb_256, 0, 2, 1, 0b1000_0000_1001);
full_case!(full_interpret_rgb_256_ansi, 2, 1, 0, 0b0101_0010_0100);
full_case!(full_interpret_256_ansi_rgb, 1, 0, 2, 0b0010_1101_0010);
