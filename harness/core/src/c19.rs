//! C19 (sequential reduction): every write-family call on the shared streams takes the
//! stream's lock exactly once and performs all of its inner writes while holding it; and
//! the process-wide choice is an atomic register.  Thread schedules are NOT explored here
//! (Kani has no concurrency support): contiguity under every schedule follows from this
//! lemma *assuming* std's stdout/stderr lock is a mutex -- see DESIGN.md.
use crate::common::*;
use anstream::stream::{AsLockedWrite, IsTerminal, RawStream};
use anstream::{AutoStream, ColorChoice, StripStream};
use core::cell::Cell;
use std::io::Write as _;

/// Probe stream: counts lock acquisitions and writes made without the lock.
struct Probe<'c> {
    locks: &'c Cell<usize>,
    held: &'c Cell<bool>,
    outside: &'c Cell<usize>,
    inside: &'c Cell<usize>,
}

struct Guard<'w> {
    held: &'w Cell<bool>,
    inside: &'w Cell<usize>,
}

impl Drop for Guard<'_> {
    fn drop(&mut self) {
        self.held.set(false);
    }
}

impl std::io::Write for Guard<'_> {
    fn write(&mut self, buf: &[u8]) -> std::io::Result<usize> {
        self.inside.set(self.inside.get() + 1);
        Ok(buf.len())
    }
    fn write_all(&mut self, _buf: &[u8]) -> std::io::Result<()> {
        self.inside.set(self.inside.get() + 1);
        Ok(())
    }
    fn flush(&mut self) -> std::io::Result<()> {
        self.inside.set(self.inside.get() + 1);
        Ok(())
    }
}

impl std::io::Write for Probe<'_> {
    // anything that reaches the stream without going through the lock
    fn write(&mut self, buf: &[u8]) -> std::io::Result<usize> {
        self.outside.set(self.outside.get() + 1);
        Ok(buf.len())
    }
    fn flush(&mut self) -> std::io::Result<()> {
        self.outside.set(self.outside.get() + 1);
        Ok(())
    }
}

impl anstream::stream::verif::Sealed for Probe<'_> {}
impl anstream::stream::verif::Sealed for Guard<'_> {}
impl IsTerminal for Probe<'_> {
    fn is_terminal(&self) -> bool {
        false
    }
}
impl IsTerminal for Guard<'_> {
    fn is_terminal(&self) -> bool {
        false
    }
}
impl RawStream for Probe<'_> {}
impl RawStream for Guard<'_> {}
impl AsLockedWrite for Probe<'_> {
    type Write<'w> = Guard<'w> where Self: 'w;
    fn as_locked_write(&mut self) -> Self::Write<'_> {
        self.locks.set(self.locks.get() + 1);
        // a second acquisition while the first is alive would be a re-entrant lock
        self.held.set(true);
        Guard {
            held: self.held,
            inside: self.inside,
        }
    }
}

fn op(w: &mut dyn std::io::Write, kind: u8, a: &[u8; 2], la: usize) {
    let r = match kind {
        0 => w.write(&a[..la]).map(|_| ()),
        1 => w.write_all(&a[..la]),
        2 => {
            let b = [a[1]];
            let bufs = [std::io::IoSlice::new(&a[..la]), std::io::IoSlice::new(&b)];
            w.write_vectored(&bufs).map(|_| ())
        }
        3 => {
            let x = [a[0] & 0x7F];
            let y = [a[1] & 0x7F];
            w.write_fmt(format_args!("{}{}", core::str::from_utf8(&x).unwrap(), core::str::from_utf8(&y).unwrap()))
        }
        _ => w.flush(),
    };
    if let Err(e) = r {
        core::mem::forget(e);
    }
}

macro_rules! lock_case {
    ($name:ident, $wrap:expr, $kind:expr) => {
        #[kani::proof]
        #[kani::unwind(4)]
        fn $name() {
            let locks = Cell::new(0usize);
            let held = Cell::new(false);
            let outside = Cell::new(0usize);
            let inside = Cell::new(0usize);
            let probe = Probe {
                locks: &locks,
                held: &held,
                outside: &outside,
                inside: &inside,
            };
            let a: [u8; 2] = kani::any();
            let la: usize = kani::any();
            kani::assume(la <= 2);
            let mut s = ($wrap)(probe);
            op(&mut s, $kind, &a, la);
            assert!(locks.get() == 1, "one call takes the stream's lock exactly once");
            assert!(outside.get() == 0, "no inner write happens without the lock");
            assert!(!held.get(), "the lock is released when the call returns");
            kani::cover!(locks.get() == 1);
            kani::cover!(inside.get() >= 1 || $kind == 0 || $kind == 1 || $kind == 2);
            core::mem::forget(s);
        }
    };
}

macro_rules! lock_cases {
    ($wrap:expr, $w:ident, $wa:ident, $wv:ident, $wf:ident, $fl:ident) => {
        lock_case!($w, $wrap, 0);
        lock_case!($wa, $wrap, 1);
        lock_case!($wv, $wrap, 2);
        lock_case!($wf, $wrap, 3);
        lock_case!($fl, $wrap, 4);
    };
}

lock_cases!(|p| AutoStream::never(p), lock_once_auto_never_write, lock_once_auto_never_write_all, lock_once_auto_never_write_vectored, lock_once_auto_never_write_fmt, lock_once_auto_never_flush);
lock_cases!(|p| AutoStream::always_ansi(p), lock_once_auto_always_ansi_write, lock_once_auto_always_ansi_write_all, lock_once_auto_always_ansi_write_vectored, lock_once_auto_always_ansi_write_fmt, lock_once_auto_always_ansi_flush);
lock_cases!(|p| StripStream::new(p), lock_once_strip_write, lock_once_strip_write_all, lock_once_strip_write_vectored, lock_once_strip_write_fmt, lock_once_strip_flush);

/// The shared standard streams: what `as_locked_write` hands out for stdout / stderr IS
/// std's lock guard (the lemma above is about *when* the lock is taken; this pins *that* the
/// thing taken is the process-wide stream lock).
#[kani::proof]
fn std_streams_hand_out_std_locks() {
    fn name_of<T: ?Sized>(_: &T) -> &'static str {
        core::any::type_name::<T>()
    }
    let mut out = std::io::stdout();
    let mut err = std::io::stderr();
    {
        let g = out.as_locked_write();
        assert!(name_of(&g).ends_with("StdoutLock<'_>") || name_of(&g).ends_with("StdoutLock"), "stdout's locked writer is std's StdoutLock");
        // (the guard is dropped normally: a leaked lock would hang the native replay)
    }
    {
        let g = err.as_locked_write();
        assert!(name_of(&g).ends_with("StderrLock<'_>") || name_of(&g).ends_with("StderrLock"), "stderr's locked writer is std's StderrLock");
    }
    kani::cover!(true);
}

/// The process-wide choice: a write is read back; every stored value maps to a choice.
#[kani::proof]
fn global_choice_register() {
    let g: u8 = kani::any();
    let c = match g % 4 {
        0 => ColorChoice::Auto,
        1 => ColorChoice::AlwaysAnsi,
        2 => ColorChoice::Always,
        _ => ColorChoice::Never,
    };
    let before = ColorChoice::global();
    assert!(before == ColorChoice::Auto, "initial value");
    c.write_global();
    assert!(ColorChoice::global() == c, "a read returns the last value written");
    let h: u8 = kani::any();
    let d = match h % 4 {
        0 => ColorChoice::Auto,
        1 => ColorChoice::AlwaysAnsi,
        2 => ColorChoice::Always,
        _ => ColorChoice::Never,
    };
    d.write_global();
    assert!(ColorChoice::global() == d, "the last write wins");
    kani::cover!(c == ColorChoice::Never && d == ColorChoice::Auto);
}
