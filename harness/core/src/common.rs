//! Shared conversions between the crates' public types and the reference models.
use vmodels::sgr::{Col, Sty};

/// Run `$body` for `$i in 0..$n` as nested loops of at most 8 iterations each, so that a
/// small harness-wide unwind bound (dictated by the loops of the code under test) covers
/// any constant `$n` up to 64 without every short loop being unrolled to a large bound.
/// A macro rather than a closure-taking function: closures make CBMC's symbolic execution
/// chase pointers to the captured state on every iteration.
#[macro_export]
macro_rules! blocks {
    ($n:expr, $i:ident, $body:block) => {{
        let mut __b = 0usize;
        while __b * 8 < $n {
            let mut __j = 0usize;
            while __j < 8 && __b * 8 + __j < $n {
                let $i = __b * 8 + __j;
                $body
                __j += 1;
            }
            __b += 1;
        }
    }};
}


pub fn any_ansi() -> anstyle::AnsiColor {
    let i: u8 = kani::any();
    kani::assume(i < 16);
    ansi_from_index(i)
}

/// 16-colour palette by its standard numbering (0..=7 normal, 8..=15 bright).
pub fn ansi_from_index(i: u8) -> anstyle::AnsiColor {
    use anstyle::AnsiColor::*;
    match i {
        0 => Black,
        1 => Red,
        2 => Green,
        3 => Yellow,
        4 => Blue,
        5 => Magenta,
        6 => Cyan,
        7 => White,
        8 => BrightBlack,
        9 => BrightRed,
        10 => BrightGreen,
        11 => BrightYellow,
        12 => BrightBlue,
        13 => BrightMagenta,
        14 => BrightCyan,
        _ => BrightWhite,
    }
}

pub fn ansi_index(c: anstyle::AnsiColor) -> u8 {
    use anstyle::AnsiColor::*;
    match c {
        Black => 0,
        Red => 1,
        Green => 2,
        Yellow => 3,
        Blue => 4,
        Magenta => 5,
        Cyan => 6,
        White => 7,
        BrightBlack => 8,
        BrightRed => 9,
        BrightGreen => 10,
        BrightYellow => 11,
        BrightBlue => 12,
        BrightMagenta => 13,
        BrightCyan => 14,
        BrightWhite => 15,
    }
}

pub fn any_color() -> anstyle::Color {
    let k: u8 = kani::any();
    match k % 3 {
        0 => anstyle::Color::Ansi(any_ansi()),
        1 => anstyle::Color::Ansi256(anstyle::Ansi256Color(kani::any())),
        _ => anstyle::Color::Rgb(anstyle::RgbColor(kani::any(), kani::any(), kani::any())),
    }
}

pub fn any_opt_color() -> Option<anstyle::Color> {
    if kani::any() {
        Some(any_color())
    } else {
        None
    }
}

pub const EFFECTS: [anstyle::Effects; 12] = [
    anstyle::Effects::BOLD,
    anstyle::Effects::DIMMED,
    anstyle::Effects::ITALIC,
    anstyle::Effects::UNDERLINE,
    anstyle::Effects::DOUBLE_UNDERLINE,
    anstyle::Effects::CURLY_UNDERLINE,
    anstyle::Effects::DOTTED_UNDERLINE,
    anstyle::Effects::DASHED_UNDERLINE,
    anstyle::Effects::BLINK,
    anstyle::Effects::INVERT,
    anstyle::Effects::HIDDEN,
    anstyle::Effects::STRIKETHROUGH,
];

/// Build an `Effects` from model bits through the public constants only.
/// (Loop-free on purpose: harnesses of code with expensive loops keep a tiny unwind bound.)
pub fn effects_from_bits(bits: u16) -> anstyle::Effects {
    let mut e = anstyle::Effects::new();
    macro_rules! bit {
        ($i:expr) => {
            if bits & (1 << $i) != 0 {
                e = e.insert(EFFECTS[$i]);
            }
        };
    }
    bit!(0);
    bit!(1);
    bit!(2);
    bit!(3);
    bit!(4);
    bit!(5);
    bit!(6);
    bit!(7);
    bit!(8);
    bit!(9);
    bit!(10);
    bit!(11);
    e
}

/// Read an `Effects` back into model bits through `contains` only (loop-free).
pub fn effects_bits(e: anstyle::Effects) -> u16 {
    let mut bits = 0u16;
    macro_rules! bit {
        ($i:expr) => {
            if e.contains(EFFECTS[$i]) {
                bits |= 1 << $i;
            }
        };
    }
    bit!(0);
    bit!(1);
    bit!(2);
    bit!(3);
    bit!(4);
    bit!(5);
    bit!(6);
    bit!(7);
    bit!(8);
    bit!(9);
    bit!(10);
    bit!(11);
    bits
}

pub fn any_effect_bits() -> u16 {
    let b: u16 = kani::any();
    kani::assume(b < (1 << 12));
    b
}

pub fn any_style() -> anstyle::Style {
    anstyle::Style::new()
        .fg_color(any_opt_color())
        .bg_color(any_opt_color())
        .underline_color(any_opt_color())
        .effects(effects_from_bits(any_effect_bits()))
}

pub fn col_of(c: anstyle::Color) -> Col {
    match c {
        anstyle::Color::Ansi(a) => Col::Ansi(ansi_index(a)),
        anstyle::Color::Ansi256(i) => Col::Idx(i.0),
        anstyle::Color::Rgb(c) => Col::Rgb(c.0, c.1, c.2),
    }
}

pub fn color_of(c: Col) -> anstyle::Color {
    match c {
        Col::Ansi(i) => anstyle::Color::Ansi(ansi_from_index(i)),
        Col::Idx(i) => anstyle::Color::Ansi256(anstyle::Ansi256Color(i)),
        Col::Rgb(r, g, b) => anstyle::Color::Rgb(anstyle::RgbColor(r, g, b)),
    }
}

pub fn sty_of(s: anstyle::Style) -> Sty {
    Sty {
        fg: s.get_fg_color().map(col_of),
        bg: s.get_bg_color().map(col_of),
        ul: s.get_underline_color().map(col_of),
        eff: effects_bits(s.get_effects()),
    }
}

pub fn style_of(s: Sty) -> anstyle::Style {
    anstyle::Style::new()
        .fg_color(s.fg.map(color_of))
        .bg_color(s.bg.map(color_of))
        .underline_color(s.ul.map(color_of))
        .effects(effects_from_bits(s.eff))
}

/// Fixed-capacity byte sink for `core::fmt` and `std::io` output.
pub struct Sink<const N: usize> {
    pub buf: [u8; N],
    pub len: usize,
    pub overflow: bool,
}

impl<const N: usize> Sink<N> {
    pub fn new() -> Self {
        Sink {
            buf: [0; N],
            len: 0,
            overflow: false,
        }
    }
    /// Constant trip count `N` (guards inside) so the harness-wide unwind bound does not
    /// multiply into this loop; a fragment longer than the sink sets `overflow`.
    pub fn push_bytes(&mut self, s: &[u8]) {
        if s.len() > N {
            self.overflow = true;
        }
        blocks!(N, i, {
            if i < s.len() {
                if self.len < N {
                    self.buf[self.len] = s[i];
                    self.len += 1;
                } else {
                    self.overflow = true;
                }
            }
        });
    }
    pub fn bytes(&self) -> &[u8] {
        &self.buf[..self.len]
    }
}

impl<const N: usize> core::fmt::Write for Sink<N> {
    fn write_str(&mut self, s: &str) -> core::fmt::Result {
        self.push_bytes(s.as_bytes());
        Ok(())
    }
}

impl<const N: usize> std::io::Write for Sink<N> {
    fn write(&mut self, buf: &[u8]) -> std::io::Result<usize> {
        self.push_bytes(buf);
        Ok(buf.len())
    }
    fn write_all(&mut self, buf: &[u8]) -> std::io::Result<()> {
        self.push_bytes(buf);
        Ok(())
    }
    fn flush(&mut self) -> std::io::Result<()> {
        Ok(())
    }
}

pub fn sinks_equal<const N: usize>(a: &Sink<N>, b: &Sink<N>) -> bool {
    if a.len != b.len {
        return false;
    }
    let mut same = true;
    blocks!(N, i, {
        if i < a.len && a.buf[i] != b.buf[i] {
            same = false;
        }
    });
    same
}

/// Build a parser parameter list with the given values and ':' structure (`sub[i]`: value
/// `i` is attached to value `i-1`) through the verification hook.
pub fn params_from(vals: &[u16], sub: &[bool], n: usize) -> anstyle_parse::Params {
    let mut subparams = [0u8; 32];
    let mut values = [0u16; 32];
    let mut cnt = [1u8; 33];
    let mut i = n;
    while i > 0 {
        i -= 1;
        values[i] = vals[i];
        cnt[i] = if i + 1 < n && sub[i + 1] { cnt[i + 1] + 1 } else { 1 };
        if !sub[i] {
            subparams[i] = cnt[i];
        }
    }
    anstyle_parse::Params::verif_from_parts(subparams, values, 0, n)
}
