//! C02: the parser reports exactly the events of the VT500 state machine.
use anstyle_parse::state::{state_change, Action, State};
use anstyle_parse::{Params, Parser, Perform};
use vmodels::vt::{self, Act, Ev, Evs, St, Vt};

pub fn real_state(st: St) -> State {
    match st {
        St::Ground => State::Ground,
        St::Escape => State::Escape,
        St::EscapeIntermediate => State::EscapeIntermediate,
        St::CsiEntry => State::CsiEntry,
        St::CsiParam => State::CsiParam,
        St::CsiIntermediate => State::CsiIntermediate,
        St::CsiIgnore => State::CsiIgnore,
        St::DcsEntry => State::DcsEntry,
        St::DcsParam => State::DcsParam,
        St::DcsIntermediate => State::DcsIntermediate,
        St::DcsPassthrough => State::DcsPassthrough,
        St::DcsIgnore => State::DcsIgnore,
        St::OscString => State::OscString,
        St::SosPmApcString => State::SosPmApcString,
        St::Utf8 => State::Utf8,
    }
}

pub fn model_state(st: State) -> Option<St> {
    Some(match st {
        State::Anywhere => return None,
        State::Ground => St::Ground,
        State::Escape => St::Escape,
        State::EscapeIntermediate => St::EscapeIntermediate,
        State::CsiEntry => St::CsiEntry,
        State::CsiParam => St::CsiParam,
        State::CsiIntermediate => St::CsiIntermediate,
        State::CsiIgnore => St::CsiIgnore,
        State::DcsEntry => St::DcsEntry,
        State::DcsParam => St::DcsParam,
        State::DcsIntermediate => St::DcsIntermediate,
        State::DcsPassthrough => St::DcsPassthrough,
        State::DcsIgnore => St::DcsIgnore,
        State::OscString => St::OscString,
        State::SosPmApcString => St::SosPmApcString,
        State::Utf8 => St::Utf8,
    })
}

pub fn any_model_state() -> St {
    let i: u8 = kani::any();
    kani::assume(i < 15);
    vt::ALL_STATES[i as usize]
}

/// Observational equality of a table action with the model's: the table's `Nop` and
/// `Ignore` both do nothing; entry/exit actions never come out of the table.
fn act_matches(real: Action, model: Act) -> bool {
    match model {
        Act::None => real == Action::Nop || real == Action::Ignore,
        Act::Print => real == Action::Print,
        Act::Execute => real == Action::Execute,
        Act::Collect => real == Action::Collect,
        Act::Param => real == Action::Param,
        Act::EscDispatch => real == Action::EscDispatch,
        Act::CsiDispatch => real == Action::CsiDispatch,
        Act::Put => real == Action::Put,
        Act::OscPut => real == Action::OscPut,
        Act::BeginUtf8 => real == Action::BeginUtf8,
    }
}

/// Layer 1: the complete transition function, every state the parser can be in x every byte.
#[kani::proof]
fn transition_table() {
    let st = any_model_state();
    kani::assume(st != St::Utf8);
    let b: u8 = kani::any();
    let (rs, ra) = state_change(real_state(st), b);
    let (ms, ma) = vt::transition(st, b);
    match ms {
        None => assert!(rs == State::Anywhere, "stays in state"),
        Some(s) => assert!(rs == real_state(s), "next state"),
    }
    assert!(act_matches(ra, ma), "action");
    kani::cover!(ms == Some(St::CsiIgnore));
    kani::cover!(ma == Act::OscPut && b >= 0x80);
    kani::cover!(ma == Act::BeginUtf8);
    kani::cover!(st == St::DcsPassthrough && ms == Some(St::Ground) && b == 0x9C);
}

/// A `Perform` that checks every callback against the model's expectation for this byte.
pub struct Checker<'m, const N: usize> {
    pub model: &'m Vt<N>,
    pub expect: Evs,
    pub seen: usize,
    pub ok: bool,
}

impl<'m, const N: usize> Checker<'m, N> {
    pub fn new(model: &'m Vt<N>, expect: Evs) -> Self {
        Checker {
            model,
            expect,
            seen: 0,
            ok: true,
        }
    }

    fn next(&mut self) -> Option<Ev> {
        let e = if self.seen < 3 {
            self.expect.e[self.seen]
        } else {
            None
        };
        self.seen += 1;
        e
    }

    fn params_ok(&self, p: &Params) -> bool {
        let m = self.model;
        if p.len() != m.n {
            return false;
        }
        let mut idx = 0usize;
        let mut ok = true;
        for group in p.iter() {
            let mut j = 0usize;
            while j < group.len() {
                if idx >= m.n || m.vals[idx] != group[j] || m.sub[idx] != (j != 0) {
                    ok = false;
                }
                idx += 1;
                j += 1;
            }
        }
        ok && idx == m.n
    }

    fn inter_ok(&self, i: &[u8]) -> bool {
        let m = self.model;
        i.len() == m.n_inter
            && (m.n_inter < 1 || i[0] == m.inter[0])
            && (m.n_inter < 2 || i[1] == m.inter[1])
    }

    pub fn finished(&self) -> bool {
        self.ok && self.seen == self.expect.len()
    }
}

impl<'m, const N: usize> Perform for Checker<'m, N> {
    fn print(&mut self, c: char) {
        let e = self.next();
        self.ok &= e == Some(Ev::Print(c as u32));
    }
    fn execute(&mut self, byte: u8) {
        let e = self.next();
        self.ok &= e == Some(Ev::Execute(byte));
    }
    fn hook(&mut self, params: &Params, intermediates: &[u8], ignore: bool, action: u8) {
        let e = self.next();
        self.ok &= e == Some(Ev::Hook(action));
        self.ok &= self.params_ok(params);
        self.ok &= self.inter_ok(intermediates);
        self.ok &= ignore == self.model.ignore;
    }
    fn put(&mut self, byte: u8) {
        let e = self.next();
        self.ok &= e == Some(Ev::Put(byte));
    }
    fn unhook(&mut self) {
        let e = self.next();
        self.ok &= e == Some(Ev::Unhook);
    }
    fn osc_dispatch(&mut self, params: &[&[u8]], bell_terminated: bool) {
        let e = self.next();
        self.ok &= e
            == Some(Ev::OscDispatch {
                bell: bell_terminated,
            });
        let m = self.model;
        self.ok &= params.len() == m.osc_fields();
        let mut i = 0;
        while i < params.len() && i < vt::MAX_OSC_FIELDS {
            let (b, e) = m.osc_field(i);
            if params[i].len() != e - b {
                self.ok = false;
            } else {
                let mut k = 0;
                while k < params[i].len() {
                    if b + k >= N || params[i][k] != m.osc[b + k] {
                        self.ok = false;
                    }
                    k += 1;
                }
            }
            i += 1;
        }
    }
    fn csi_dispatch(&mut self, params: &Params, intermediates: &[u8], ignore: bool, action: u8) {
        let e = self.next();
        self.ok &= e == Some(Ev::CsiDispatch(action));
        self.ok &= self.params_ok(params);
        self.ok &= self.inter_ok(intermediates);
        self.ok &= ignore == self.model.ignore;
    }
    fn esc_dispatch(&mut self, intermediates: &[u8], ignore: bool, byte: u8) {
        let e = self.next();
        self.ok &= e == Some(Ev::EscDispatch(byte));
        self.ok &= self.inter_ok(intermediates);
        self.ok &= ignore == self.model.ignore;
    }
}

/// Feed one byte to the real parser and to the model; true iff the callbacks agree.
pub fn lockstep<const N: usize>(parser: &mut Parser, model: &mut Vt<N>, b: u8) -> bool {
    let evs = model.step(b);
    let mut chk = Checker::new(&*model, evs);
    parser.advance(&mut chk, b);
    chk.finished()
}

/// Layer 3: bounded runs from `Parser::new()` through the public API, every byte value
/// at every position.
macro_rules! run_from_new {
    ($name:ident, $n:expr, $unwind:expr) => {
        #[kani::proof]
        #[kani::unwind($unwind)]
        fn $name() {
            let buf: [u8; $n] = kani::any();
            let mut parser = Parser::<anstyle_parse::DefaultCharAccumulator>::new();
            let mut model: Vt<8> = Vt::new();
            let mut i = 0;
            while i < $n {
                assert!(lockstep(&mut parser, &mut model, buf[i]), "callbacks agree");
                i += 1;
            }
            kani::cover!(model.st == St::CsiParam);
            kani::cover!(model.st == St::OscString && model.osc_len > 0);
            kani::cover!(model.st == St::Ground && $n > 1 && buf[0] == 0x1B);
        }
    };
}

run_from_new!(run_from_new_1, 1, 5);
run_from_new!(run_from_new_2, 2, 6);
run_from_new!(run_from_new_3, 3, 7);
run_from_new!(run_from_new_4, 4, 8);
run_from_new!(run_from_new_5, 5, 9);
