//! C02: the parser reports exactly the events of the VT500 state machine.
use anstyle_parse::state::{state_change, Action, State};
use anstyle_parse::{Params, Parser, Perform};
use vmodels::vt::{self, Act, Ev, Evs, St, Vt};

pub fn real_state(st: St) -> State {
    match st {
        St::Ground => State::Ground,
        St::Escape => State::Escape,
        St::EscapeIntermediate => State::EscapeIntermediate,
        St::CsiEntry => State::CsiEntry,
        St::CsiParam => State::CsiParam,
        St::CsiIntermediate => State::CsiIntermediate,
        St::CsiIgnore => State::CsiIgnore,
        St::DcsEntry => State::DcsEntry,
        St::DcsParam => State::DcsParam,
        St::DcsIntermediate => State::DcsIntermediate,
        St::DcsPassthrough => State::DcsPassthrough,
        St::DcsIgnore => State::DcsIgnore,
        St::OscString => State::OscString,
        St::SosPmApcString => State::SosPmApcString,
        St::Utf8 => State::Utf8,
    }
}

pub fn model_state(st: State) -> Option<St> {
    Some(match st {
        State::Anywhere => return None,
        State::Ground => St::Ground,
        State::Escape => St::Escape,
        State::EscapeIntermediate => St::EscapeIntermediate,
        State::CsiEntry => St::CsiEntry,
        State::CsiParam => St::CsiParam,
        State::CsiIntermediate => St::CsiIntermediate,
        State::CsiIgnore => St::CsiIgnore,
        State::DcsEntry => St::DcsEntry,
        State::DcsParam => St::DcsParam,
        State::DcsIntermediate => St::DcsIntermediate,
        State::DcsPassthrough => St::DcsPassthrough,
        State::DcsIgnore => St::DcsIgnore,
        State::OscString => St::OscString,
        State::SosPmApcString => St::SosPmApcString,
        State::Utf8 => St::Utf8,
    })
}

pub fn any_model_state() -> St {
    let i: u8 = kani::any();
    kani::assume(i < 15);
    vt::ALL_STATES[i as usize]
}

/// Observational equality of a table action with the model's: the table's `Nop` and
/// `Ignore` both do nothing; entry/exit actions never come out of the table.
fn act_matches(real: Action, model: Act) -> bool {
    match model {
        Act::None => real == Action::Nop || real == Action::Ignore,
        Act::Print => real == Action::Print,
        Act::Execute => real == Action::Execute,
        Act::Collect => real == Action::Collect,
        Act::Param => real == Action::Param,
        Act::EscDispatch => real == Action::EscDispatch,
        Act::CsiDispatch => real == Action::CsiDispatch,
        Act::Put => real == Action::Put,
        Act::OscPut => real == Action::OscPut,
        Act::BeginUtf8 => real == Action::BeginUtf8,
    }
}

/// Layer 1: the complete transition function, every state the parser can be in x every byte.
#[kani::proof]
fn transition_table() {
    let st = any_model_state();
    kani::assume(st != St::Utf8);
    let b: u8 = kani::any();
    let (rs, ra) = state_change(real_state(st), b);
    let (ms, ma) = vt::transition(st, b);
    match ms {
        None => assert!(rs == State::Anywhere, "stays in state"),
        Some(s) => assert!(rs == real_state(s), "next state"),
    }
    assert!(act_matches(ra, ma), "action");
    kani::cover!(ms == Some(St::CsiIgnore));
    kani::cover!(ma == Act::OscPut && b >= 0x80);
    kani::cover!(ma == Act::BeginUtf8);
    kani::cover!(st == St::DcsPassthrough && ms == Some(St::Ground) && b == 0x9C);
}

/// A `Perform` that checks every callback against the model's expectation for this byte.
pub struct Checker<'m, const N: usize> {
    pub model: &'m Vt<N>,
    pub expect: Evs,
    pub seen: usize,
    pub ok: bool,
}

impl<'m, const N: usize> Checker<'m, N> {
    pub fn new(model: &'m Vt<N>, expect: Evs) -> Self {
        Checker {
            model,
            expect,
            seen: 0,
            ok: true,
        }
    }

    fn next(&mut self) -> Option<Ev> {
        let e = if self.seen < 3 {
            self.expect.e[self.seen]
        } else {
            None
        };
        self.seen += 1;
        e
    }

    fn params_ok(&self, p: &Params) -> bool {
        let m = self.model;
        if p.len() != m.n {
            return false;
        }
        let mut idx = 0usize;
        let mut ok = true;
        for group in p.iter() {
            let mut j = 0usize;
            while j < group.len() {
                if idx >= m.n || m.vals[idx] != group[j] || m.sub[idx] != (j != 0) {
                    ok = false;
                }
                idx += 1;
                j += 1;
            }
        }
        ok && idx == m.n
    }

    fn inter_ok(&self, i: &[u8]) -> bool {
        let m = self.model;
        i.len() == m.n_inter
            && (m.n_inter < 1 || i[0] == m.inter[0])
            && (m.n_inter < 2 || i[1] == m.inter[1])
    }

    pub fn finished(&self) -> bool {
        self.ok && self.seen == self.expect.len()
    }
}

impl<'m, const N: usize> Perform for Checker<'m, N> {
    fn print(&mut self, c: char) {
        let e = self.next();
        self.ok &= e == Some(Ev::Print(c as u32));
    }
    fn execute(&mut self, byte: u8) {
        let e = self.next();
        self.ok &= e == Some(Ev::Execute(byte));
    }
    fn hook(&mut self, params: &Params, intermediates: &[u8], ignore: bool, action: u8) {
        let e = self.next();
        self.ok &= e == Some(Ev::Hook(action));
        self.ok &= self.params_ok(params);
        self.ok &= self.inter_ok(intermediates);
        self.ok &= ignore == self.model.ignore;
    }
    fn put(&mut self, byte: u8) {
        let e = self.next();
        self.ok &= e == Some(Ev::Put(byte));
    }
    fn unhook(&mut self) {
        let e = self.next();
        self.ok &= e == Some(Ev::Unhook);
    }
    fn osc_dispatch(&mut self, params: &[&[u8]], bell_terminated: bool) {
        let e = self.next();
        self.ok &= e
            == Some(Ev::OscDispatch {
                bell: bell_terminated,
            });
        let m = self.model;
        self.ok &= params.len() == m.osc_fields();
        // constant trip counts (16 fields x N payload bytes), guards inside
        crate::blocks!(16, i, {
            if i < params.len() {
                let (b, e) = m.osc_field(i);
                if params[i].len() != e - b {
                    self.ok = false;
                } else if N <= 8 {
                    let mut k = 0;
                    while k < N {
                        if k < params[i].len() && (b + k >= N || params[i][k] != m.osc[b + k]) {
                            self.ok = false;
                        }
                        k += 1;
                    }
                } else {
                    let mut k = 0;
                    while k < params[i].len() {
                        if b + k >= N || params[i][k] != m.osc[b + k] {
                            self.ok = false;
                        }
                        k += 1;
                    }
                }
            }
        });
    }
    fn csi_dispatch(&mut self, params: &Params, intermediates: &[u8], ignore: bool, action: u8) {
        let e = self.next();
        self.ok &= e == Some(Ev::CsiDispatch(action));
        self.ok &= self.params_ok(params);
        self.ok &= self.inter_ok(intermediates);
        self.ok &= ignore == self.model.ignore;
    }
    fn esc_dispatch(&mut self, intermediates: &[u8], ignore: bool, byte: u8) {
        let e = self.next();
        self.ok &= e == Some(Ev::EscDispatch(byte));
        self.ok &= self.inter_ok(intermediates);
        self.ok &= ignore == self.model.ignore;
    }
}

/// Feed one byte to the real parser and to the model; true iff the callbacks agree.
pub fn lockstep<const N: usize>(parser: &mut Parser, model: &mut Vt<N>, b: u8) -> bool {
    // C20: the domain on which all feature configurations must agree
    #[cfg(feature = "seven_bit")]
    kani::assume(b < 0x80);
    let evs = model.step(b);
    let mut chk = Checker::new(&*model, evs);
    parser.advance(&mut chk, b);
    chk.finished()
}

/// Layer 3: bounded runs from `Parser::new()` through the public API, every byte value
/// at every position.
macro_rules! run_from_new {
    ($name:ident, $n:expr, $unwind:expr) => {
        #[kani::proof]
        #[kani::unwind($unwind)]
        fn $name() {
            let buf: [u8; $n] = kani::any();
            let mut parser = Parser::<anstyle_parse::DefaultCharAccumulator>::new();
            let mut model: Vt<8> = Vt::new();
            let mut i = 0;
            while i < $n {
                assert!(lockstep(&mut parser, &mut model, buf[i]), "callbacks agree");
                i += 1;
            }
            kani::cover!(model.st == St::Escape);
            kani::cover!(model.st == St::Utf8);
            kani::cover!(model.st == St::CsiParam || $n < 3);
            kani::cover!((model.st == St::OscString && model.osc_len > 0) || $n < 3);
            kani::cover!((model.st == St::Ground && buf[0] == 0x1B) || $n < 2);
        }
    };
}

/// The documented OSC parameter limit through the public API: a concrete prefix
/// `ESC ] ;;;;;;;;;;;;;;;` (15 completed fields, the 16th open), then three symbolic bytes
/// (text, further separators, terminators, anything), then BEL.  The one-step shapes at the
/// limit (`step_osc_15/16`) need 25 GB each; this run reaches the same code with the
/// parser's state concrete up to the symbolic bytes.
#[kani::proof]
#[kani::unwind(24)]
fn osc_param_limit_run() {
    let s: [u8; 3] = kani::any();
    let buf: [u8; 21] = [
        0x1B, b']', b';', b';', b';', b';', b';', b';', b';', b';', b';', b';', b';', b';', b';', b';', b';', s[0], s[1], s[2], 0x07,
    ];
    let mut parser = Parser::<anstyle_parse::DefaultCharAccumulator>::new();
    let mut model: Vt<24> = Vt::new();
    let mut i = 0;
    while i < 21 {
        assert!(lockstep(&mut parser, &mut model, buf[i]), "callbacks agree");
        i += 1;
    }
    kani::cover!(s[0] == b'a' && s[1] == b';' && s[2] == b'b' && model.st == St::Ground);
    kani::cover!(s[1] == 0x1B);
}

run_from_new!(run_from_new_1, 1, 5);
run_from_new!(run_from_new_2, 2, 6);
run_from_new!(run_from_new_3, 3, 7);
run_from_new!(run_from_new_4, 4, 8);
run_from_new!(run_from_new_5, 5, 9);

// ---------------------------------------------------------------------------------------
// Layer 2: one-step refinement from an arbitrary valid parser state (covers histories of
// any length by induction: abstract(Parser::new()) == Vt::new(), and every step preserves
// "callbacks agree and abstract(parser) == model").
// ---------------------------------------------------------------------------------------

pub const OSCN: usize = 6;

// `kani::any::<[T; 32]>()` is a 32-iteration loop; arrays are assembled from 8-element
// pieces so that the harness-wide unwind bound can stay small.  `$sym` says how many
// leading entries are symbolic: entries the shape never reads (beyond the completed values
// plus the one being written) are fixed filler, which keeps the SAT instance small; the
// limit shapes (31/32 values) ask for all of them.
macro_rules! any_array {
    ($name:ident, $t:ty, $n:expr, $zero:expr) => {
        fn $name(sym: usize) -> [$t; $n] {
            let mut out = [$zero; $n];
            let mut b = 0;
            while b * 8 < $n {
                if b * 8 < sym {
                    let piece: [$t; 8] = kani::any();
                    let mut j = 0;
                    while j < 8 && b * 8 + j < $n {
                        out[b * 8 + j] = piece[j];
                        j += 1;
                    }
                }
                b += 1;
            }
            out
        }
    };
}
any_array!(any32_u16, u16, 32, 0u16);
any_array!(any32_bool, bool, 32, false);
any_array!(any32_u8, u8, 32, 0u8);
any_array!(any16_pairs, (usize, usize), 16, (0usize, 0usize));

/// An arbitrary model state in parser state `st` with exactly `n` completed parameter
/// values and `n_cuts` completed OSC fields (concrete shape), everything else symbolic
/// under the model's invariant.
pub fn any_model(st: St, n: usize, n_cuts: usize) -> Vt<OSCN> {
    let mut m: Vt<OSCN> = Vt::new();
    m.st = st;
    m.inter = kani::any();
    m.n_inter = kani::any();
    kani::assume(m.n_inter <= vt::MAX_INTERMEDIATES);
    m.vals = any32_u16(n + 2);
    m.sub = any32_bool(n + 2);
    m.sub[0] = false;
    m.n = n;
    m.cur = kani::any();
    m.cur_sub = kani::any();
    if n == 0 {
        m.cur_sub = false;
    }
    m.ignore = kani::any();
    m.osc = kani::any();
    m.osc_len = kani::any();
    // room for one more payload byte inside the model buffer
    kani::assume(m.osc_len < OSCN);
    m.n_cuts = n_cuts;
    let mut prev = 0usize;
    let mut i = 0;
    while i < n_cuts {
        let c: usize = kani::any();
        kani::assume(prev <= c && c <= m.osc_len);
        m.cuts[i] = c;
        prev = c;
        i += 1;
    }
    if n_cuts == vt::MAX_OSC_FIELDS {
        // the model stops recording once 16 fields are complete
        kani::assume(m.osc_len == m.cuts[vt::MAX_OSC_FIELDS - 1]);
    }
    m
}

/// Build a real parser whose abstraction is `m`; fields the abstraction does not look at
/// are symbolic.
pub fn concretize(m: &Vt<OSCN>, extra_osc: usize) -> Parser {
    // params
    let mut subparams: [u8; 32] = any32_u8(m.n + 2);
    let mut cnt = [1u8; 33];
    let mut i = m.n;
    while i > 0 {
        i -= 1;
        cnt[i] = if i + 1 < m.n && m.sub[i + 1] { cnt[i + 1] + 1 } else { 1 };
        if !m.sub[i] {
            subparams[i] = cnt[i];
        }
    }
    // length of the trailing group when the pending value continues it
    let mut current_subparams = 0u8;
    if m.cur_sub {
        let mut k = m.n;
        let mut open = true;
        while k > 0 {
            k -= 1;
            if open {
                current_subparams += 1;
                if !m.sub[k] {
                    open = false;
                }
            }
        }
    }
    let params = Params::verif_from_parts(subparams, m.vals, current_subparams, m.n);
    // OSC buffer: the model's payload, plus bytes the real parser keeps after the 16th
    // field (they belong to no field)
    let mut raw = [0u8; OSCN + 2];
    let mut k = 0;
    while k < OSCN {
        raw[k] = m.osc[k];
        k += 1;
    }
    let mut raw_len = m.osc_len;
    if m.n_cuts == vt::MAX_OSC_FIELDS {
        raw[raw_len] = kani::any();
        raw[raw_len + 1] = kani::any();
        raw_len += extra_osc;
    }
    let mut osc_params: [(usize, usize); 16] = any16_pairs(m.n_cuts + 2);
    let mut prev = 0usize;
    let mut i = 0;
    while i < m.n_cuts {
        osc_params[i] = (prev, m.cuts[i]);
        prev = m.cuts[i];
        i += 1;
    }
    Parser::verif_from_parts(anstyle_parse::VerifParts {
        state: real_state(m.st),
        intermediates: m.inter,
        intermediate_idx: m.n_inter,
        params,
        param: m.cur,
        osc_raw: &raw[..raw_len],
        osc_params,
        osc_num_params: m.n_cuts,
        ignoring: m.ignore,
        utf8_parser: Default::default(),
    })
}

/// abstract(parser) == model, field by field.
pub fn abstracts_to(p: &Parser, m: &Vt<OSCN>) -> bool {
    let parts = p.verif_parts();
    let mut ok = true;
    ok &= model_state(parts.state) == Some(m.st);
    ok &= parts.intermediate_idx == m.n_inter;
    ok &= m.n_inter < 1 || parts.intermediates[0] == m.inter[0];
    ok &= m.n_inter < 2 || parts.intermediates[1] == m.inter[1];
    ok &= parts.param == m.cur;
    ok &= parts.ignoring == m.ignore;
    let (subparams, values, current, len) = parts.params.verif_parts();
    ok &= len == m.n;
    // group structure: walk the real list group by group
    let mut next_start = 0usize;
    let mut last_start = 0usize;
    crate::blocks!(32, i, {
        if i < len {
            ok &= values[i] == m.vals[i];
            let is_start = i == next_start;
            ok &= is_start == !m.sub[i];
            if is_start {
                last_start = i;
                let c = subparams[i] as usize;
                next_start = i + if c == 0 { 1 } else { c };
            }
        }
    });
    if m.cur_sub {
        ok &= current as usize == len - last_start && len > 0;
    } else {
        ok &= current == 0;
        ok &= len == 0 || next_start == len;
    }
    // OSC
    ok &= parts.osc_num_params == m.n_cuts;
    let mut prev = 0usize;
    crate::blocks!(16, i, {
        if i < m.n_cuts {
            ok &= parts.osc_params[i] == (prev, m.cuts[i]);
            prev = m.cuts[i];
        }
    });
    if m.n_cuts == 16 {
        ok &= parts.osc_raw.len() >= m.osc_len;
    } else {
        ok &= parts.osc_raw.len() == m.osc_len;
    }
    let mut k = 0;
    while k < OSCN {
        if k < m.osc_len {
            ok &= k < parts.osc_raw.len() && parts.osc_raw[k] == m.osc[k];
        }
        k += 1;
    }
    ok
}

#[kani::proof]
#[kani::unwind(10)]
fn step_initial_state() {
    let p = Parser::<anstyle_parse::DefaultCharAccumulator>::new();
    let m: Vt<OSCN> = Vt::new();
    assert!(abstracts_to(&p, &m), "abstract(Parser::new()) == Vt::new()");
    kani::cover!(m.st == St::Ground);
}

macro_rules! step_case {
    ($name:ident, $st:expr, $n:expr, $cuts:expr, $extra:expr, $u:literal) => {
        #[kani::proof]
        #[kani::unwind($u)]
        fn $name() {
            let mut m = any_model($st, $n, $cuts);
            let mut p = concretize(&m, $extra);
            assert!(abstracts_to(&p, &m), "HARNESS-LIMIT: concretize/abstract disagree");
            let b: u8 = kani::any();
            let pre_n = m.n;
            let ok = lockstep(&mut p, &mut m, b);
            assert!(ok, "callbacks agree with the model");
            assert!(abstracts_to(&p, &m), "post-state refines the model's post-state");
            assert!(m.n_inter <= 2 && m.n <= 32 && m.n_cuts <= 16, "invariant preserved");
            kani::cover!(m.st != $st);
            kani::cover!(m.n > pre_n);
            kani::cover!(m.ignore);
        }
    };
}

// every parser state with few parameters (symbolic values / structure)
step_case!(step_ground, St::Ground, 1, 1, 0, 10);
step_case!(step_escape, St::Escape, 0, 0, 0, 10);
step_case!(step_escape_intermediate, St::EscapeIntermediate, 0, 0, 0, 10);
step_case!(step_csi_entry, St::CsiEntry, 0, 0, 0, 10);
step_case!(step_csi_param_0, St::CsiParam, 0, 0, 0, 10);
step_case!(step_csi_param_2, St::CsiParam, 2, 0, 0, 10);
step_case!(step_csi_intermediate, St::CsiIntermediate, 2, 0, 0, 10);
step_case!(step_csi_ignore, St::CsiIgnore, 1, 0, 0, 10);
step_case!(step_dcs_entry, St::DcsEntry, 0, 0, 0, 10);
step_case!(step_dcs_param, St::DcsParam, 2, 0, 0, 10);
step_case!(step_dcs_intermediate, St::DcsIntermediate, 1, 0, 0, 10);
step_case!(step_dcs_passthrough, St::DcsPassthrough, 1, 0, 0, 10);
step_case!(step_dcs_ignore, St::DcsIgnore, 1, 0, 0, 10);
step_case!(step_osc_0, St::OscString, 0, 0, 0, 10);
step_case!(step_osc_2, St::OscString, 0, 2, 0, 10);
step_case!(step_sos, St::SosPmApcString, 0, 0, 0, 10);
// the documented limits: 31 / 32 parameter values, 15 / 16 OSC fields
step_case!(step_csi_param_31, St::CsiParam, 31, 0, 0, 34);
step_case!(step_csi_param_32, St::CsiParam, 32, 0, 0, 35);
step_case!(step_csi_intermediate_32, St::CsiIntermediate, 32, 0, 0, 35);
step_case!(step_dcs_param_31, St::DcsParam, 31, 0, 0, 34);
step_case!(step_dcs_param_32, St::DcsParam, 32, 0, 0, 35);
step_case!(step_osc_15, St::OscString, 0, 15, 0, 18);
step_case!(step_osc_16, St::OscString, 0, 16, 0, 19);
step_case!(step_osc_16_extra, St::OscString, 0, 16, 2, 19);

/// UTF-8 state: a lead byte plus `$k` further (arbitrary) bytes from Ground, then one more
/// arbitrary byte -- escape processing must stay suspended until the character ends.
macro_rules! utf8_case {
    ($name:ident, $k:expr) => {
        #[kani::proof]
        #[kani::unwind(10)]
        fn $name() {
            let mut m = any_model(St::Ground, 1, 1);
            let mut p = concretize(&m, 0);
            let lead: u8 = kani::any();
            kani::assume(lead >= 0xC2 && lead <= 0xF4);
            assert!(lockstep(&mut p, &mut m, lead));
            let mut i = 0;
            while i < $k {
                let b: u8 = kani::any();
                assert!(lockstep(&mut p, &mut m, b), "callbacks agree inside a character");
                i += 1;
            }
            let was_utf8 = m.st == St::Utf8;
            let b: u8 = kani::any();
            assert!(lockstep(&mut p, &mut m, b), "callbacks agree with the model");
            assert!(abstracts_to(&p, &m), "post-state refines the model's post-state");
            kani::cover!(was_utf8 && b == 0x1B && m.st == St::Ground);
            kani::cover!(was_utf8 || $k > 0);
            kani::cover!(m.st == St::Escape || $k == 0);
        }
    };
}
utf8_case!(step_utf8_0, 0);
utf8_case!(step_utf8_1, 1);
utf8_case!(step_utf8_2, 2);
