//! C07: styled-run extraction follows standard SGR semantics.
//!
//! The extractor's source file is compiled into this module straight from /repo's working
//! tree, which gives the harness access to the private `WinconCapture` and its
//! `csi_dispatch`.
#![allow(clippy::all, unreachable_pub, dead_code)]

include!("/repo/crates/anstream/src/adapter/wincon.rs");

mod harness;
