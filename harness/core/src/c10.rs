//! C10: lossy colour conversion is total, exact on exact matches and nearest otherwise.
//!
//! Decomposition (DESIGN.md): K1 (the distance kernel, decided by SMT on its MIR) is not
//! here.  K2: with `distance` replaced by an *arbitrary table* (Kani stub), the two scans
//! return the lowest index of minimal table value -- for every table, i.e. for every weak
//! order of the candidates a metric could induce.  K3: the direct conversions.
use crate::common::*;
use anstyle::{Ansi256Color, AnsiColor, Color, RgbColor};
use anstyle_lossy::palette::Palette;
use vmodels::xterm::{xterm_index, xterm_rgb};

// ------------------------------------------------------------------ K2: 16-colour scan
static mut QUERY: (u8, u8, u8) = (0, 0, 0);
static mut T16: [u8; 16] = [0; 16];
static mut CALLS: usize = 0;

/// Stub for `anstyle_lossy::distance` in the palette scan: palette entries are tagged
/// `Rgb(tag, 0, 0)`; equal tags (duplicate entries) get equal distances by construction.
pub fn table16(c1: RgbColor, c2: RgbColor) -> u32 {
    unsafe {
        CALLS += 1;
        assert!((c1.r(), c1.g(), c1.b()) == QUERY, "distance is taken from the colour being converted");
        assert!(c2.r() < 16 && c2.g() == 0 && c2.b() == 0, "candidates are palette entries");
        T16[c2.r() as usize] as u32
    }
}

#[kani::proof]
#[kani::stub(anstyle_lossy::distance, table16)]
#[kani::unwind(18)]
fn palette_scan_lowest_minimum() {
    let q: (u8, u8, u8) = kani::any();
    let t: [u8; 16] = kani::any();
    let tags: [u8; 16] = kani::any();
    let mut pal = [RgbColor(0, 0, 0); 16];
    let mut i = 0;
    while i < 16 {
        kani::assume(tags[i] < 16);
        pal[i] = RgbColor(tags[i], 0, 0);
        i += 1;
    }
    unsafe {
        QUERY = q;
        T16 = t;
        CALLS = 0;
    }
    let got = anstyle_lossy::rgb_to_ansi(RgbColor(q.0, q.1, q.2), Palette(pal));
    assert!(unsafe { CALLS } > 0, "HARNESS-LIMIT: the scan did not go through the stubbed distance function");
    let gi = ansi_index(got) as usize;
    // specification: lowest index whose distance is minimal
    let best = t[tags[gi] as usize];
    let mut minimal = true;
    let mut lowest = true;
    let mut i = 0;
    while i < 16 {
        let d = t[tags[i] as usize];
        if best > d {
            minimal = false;
        }
        if i < gi && d <= best {
            lowest = false;
        }
        i += 1;
    }
    assert!(minimal, "result has minimal distance");
    assert!(lowest, "ties go to the lowest index");
    assert!(anstyle_lossy::color_to_ansi(Color::Rgb(RgbColor(q.0, q.1, q.2)), Palette(pal)) == got);
    kani::cover!(gi == 15);
    kani::cover!(gi == 0 && tags[0] == tags[7]);
    kani::cover!(gi == 3 && t[tags[3] as usize] == t[tags[9] as usize]);
}

// ------------------------------------------------------------------ K2: 256-colour scan
static mut T240: [u8; 240] = [0; 240];

/// Stub for `distance` in the xterm scan: the candidate must be one of the 240 fixed
/// colours (checked against the reference generator), identified by its palette index.
pub fn table240(c1: RgbColor, c2: RgbColor) -> u32 {
    unsafe {
        CALLS += 1;
        assert!((c1.r(), c1.g(), c1.b()) == QUERY, "distance is taken from the colour being converted");
        match xterm_index(c2.r(), c2.g(), c2.b()) {
            Some(i) => T240[(i - 16) as usize] as u32,
            None => {
                assert!(false, "candidates are the 240 fixed xterm colours");
                0
            }
        }
    }
}

fn xterm_scan_body(levels: u8) {
    let q: (u8, u8, u8) = kani::any();
    let t: [u8; 240] = kani::any();
    if levels != 0 {
        // quick tier: distance tables with at most `levels` distinct values
        let mut i = 0;
        while i < 240 {
            kani::assume(t[i] < levels);
            i += 1;
        }
    }
    unsafe {
        QUERY = q;
        T240 = t;
        CALLS = 0;
    }
    let got = anstyle_lossy::rgb_to_xterm(RgbColor(q.0, q.1, q.2));
    assert!(unsafe { CALLS } == 240, "every one of the 240 candidates is examined exactly once");
    assert!(got.index() >= 16, "candidates are indices 16-255 only");
    let gi = (got.index() - 16) as usize;
    let best = t[gi];
    let mut minimal = true;
    let mut lowest = true;
    let mut i = 0;
    while i < 240 {
        if best > t[i] {
            minimal = false;
        }
        if i < gi && t[i] <= best {
            lowest = false;
        }
        i += 1;
    }
    assert!(minimal, "result has minimal distance");
    assert!(lowest, "ties go to the lowest index");
    kani::cover!(gi == 239);
    kani::cover!(gi == 0);
    kani::cover!(gi == 100 && t[100] == t[200]);
}

#[kani::proof]
#[kani::stub(anstyle_lossy::distance, table240)]
#[kani::unwind(243)]
fn xterm_scan_lowest_minimum() {
    xterm_scan_body(0);
}

/// Same lemma over distance tables with at most four distinct values (every weak order of
/// the 240 candidates with <= 4 levels): minutes instead of half an hour.
#[kani::proof]
#[kani::stub(anstyle_lossy::distance, table240)]
#[kani::unwind(243)]
fn xterm_scan_lowest_minimum_4_levels() {
    xterm_scan_body(4);
}

// ------------------------------------------------------------------ K3: direct conversions
fn any_palette() -> Palette {
    let raw: [(u8, u8, u8); 16] = kani::any();
    let mut pal = [RgbColor(0, 0, 0); 16];
    let mut i = 0;
    while i < 16 {
        pal[i] = RgbColor(raw[i].0, raw[i].1, raw[i].2);
        i += 1;
    }
    Palette(pal)
}

#[kani::proof]
#[kani::unwind(18)]
fn direct_conversions() {
    let pal = any_palette();
    let a = any_ansi();
    let i: u8 = kani::any();
    let rgb = RgbColor(kani::any(), kani::any(), kani::any());
    // identity on the target kind
    assert!(anstyle_lossy::color_to_rgb(Color::Rgb(rgb), pal) == rgb);
    assert!(anstyle_lossy::color_to_xterm(Color::Ansi256(Ansi256Color(i))) == Ansi256Color(i));
    assert!(anstyle_lossy::color_to_ansi(Color::Ansi(a), pal) == a);
    // the 16-colour palette is indices 0..=15 of the 256-colour palette
    let ai = ansi_index(a);
    assert!(anstyle_lossy::color_to_xterm(Color::Ansi(a)) == Ansi256Color(ai));
    assert!(anstyle_lossy::ansi_to_rgb(a, pal) == pal.0[ai as usize]);
    assert!(pal.get(a) == pal.0[ai as usize]);
    assert!(pal[a] == pal.0[ai as usize]);
    assert!(anstyle_lossy::color_to_rgb(Color::Ansi(a), pal) == pal.0[ai as usize]);
    if i < 16 {
        assert!(anstyle_lossy::xterm_to_ansi(Ansi256Color(i), pal) == ansi_from_index(i));
        assert!(anstyle_lossy::xterm_to_rgb(Ansi256Color(i), pal) == pal.0[i as usize]);
        assert!(anstyle_lossy::color_to_ansi(Color::Ansi256(Ansi256Color(i)), pal) == ansi_from_index(i));
    } else {
        // the fixed part of the palette is xterm's cube and grey ramp
        let (r, g, b) = xterm_rgb(i);
        assert!(anstyle_lossy::xterm_to_rgb(Ansi256Color(i), pal) == RgbColor(r, g, b), "xterm colour table");
        assert!(anstyle_lossy::color_to_rgb(Color::Ansi256(Ansi256Color(i)), pal) == RgbColor(r, g, b));
    }
    kani::cover!(i == 16);
    kani::cover!(i == 255);
    kani::cover!(i == 7);
}

/// An indexed colour >= 16 goes to the 16-colour palette through its RGB value.
#[kani::proof]
#[kani::stub(anstyle_lossy::distance, table16)]
#[kani::unwind(18)]
fn xterm_to_ansi_goes_through_rgb() {
    let i: u8 = kani::any();
    kani::assume(i >= 16);
    let t: [u8; 16] = kani::any();
    let mut pal = [RgbColor(0, 0, 0); 16];
    let mut k = 0;
    while k < 16 {
        pal[k] = RgbColor(k as u8, 0, 0);
        k += 1;
    }
    let q = xterm_rgb(i);
    unsafe {
        QUERY = q;
        T16 = t;
        CALLS = 0;
    }
    let got = anstyle_lossy::xterm_to_ansi(Ansi256Color(i), Palette(pal));
    let gi = ansi_index(got) as usize;
    let mut k = 0;
    while k < 16 {
        assert!(t[gi] <= t[k] && (k >= gi || t[k] > t[gi]), "nearest palette entry of the colour's RGB value");
        k += 1;
    }
    kani::cover!(gi == 9);
}
