//! C08: AutoStream modes -- Never strips exactly like the strip stream, AlwaysAnsi (and
//! Always on this platform) forwards every byte unchanged.
use crate::common::*;
use anstream::{AutoStream, ColorChoice, StripStream};
use std::io::Write as _;

/// One write-family operation with symbolic kind and symbolic 2-byte payload(s).
#[derive(Clone, Copy)]
struct Op {
    kind: u8,
    a: [u8; 2],
    la: usize,
    b: [u8; 1],
}

fn any_op() -> Op {
    let kind: u8 = kani::any();
    kani::assume(kind < 5);
    let la: usize = kani::any();
    kani::assume(la <= 2);
    let b: [u8; 1] = kani::any();
    // the formatted write takes text: keep its fragments ASCII
    Op {
        kind,
        a: kani::any(),
        la,
        b,
    }
}

/// Result of an operation, comparable across streams.
#[derive(PartialEq, Eq, Clone, Copy)]
enum Res {
    Count(usize),
    Unit,
    Failed,
}

fn apply<W: std::io::Write + ?Sized>(w: &mut W, op: &Op) -> Res {
    match op.kind {
        0 => match w.write(&op.a[..op.la]) {
            Ok(n) => Res::Count(n),
            Err(e) => {
                core::mem::forget(e);
                Res::Failed
            }
        },
        1 => match w.write_all(&op.a[..op.la]) {
            Ok(()) => Res::Unit,
            Err(e) => {
                core::mem::forget(e);
                Res::Failed
            }
        },
        2 => {
            let bufs = [std::io::IoSlice::new(&op.a[..op.la]), std::io::IoSlice::new(&op.b)];
            match w.write_vectored(&bufs) {
                Ok(n) => Res::Count(n),
                Err(e) => {
                    core::mem::forget(e);
                    Res::Failed
                }
            }
        }
        3 => {
            let x = [op.a[0] & 0x7F];
            let y = [op.b[0] & 0x7F];
            let sx = core::str::from_utf8(&x).unwrap();
            let sy = core::str::from_utf8(&y).unwrap();
            match w.write_fmt(format_args!("{}{}", sx, sy)) {
                Ok(()) => Res::Unit,
                Err(e) => {
                    core::mem::forget(e);
                    Res::Failed
                }
            }
        }
        _ => match w.flush() {
            Ok(()) => Res::Unit,
            Err(e) => {
                core::mem::forget(e);
                Res::Failed
            }
        },
    }
}

/// What a pass-through stream must hand to its inner writer for `op`.
fn expect_passthrough(want: &mut Sink<8>, op: &Op) -> Res {
    match op.kind {
        0 => {
            want.push_bytes(&op.a[..op.la]);
            Res::Count(op.la)
        }
        1 => {
            want.push_bytes(&op.a[..op.la]);
            Res::Unit
        }
        2 => {
            // the in-memory sink's default write_vectored writes the first non-empty slice
            if op.la > 0 {
                want.push_bytes(&op.a[..op.la]);
                Res::Count(op.la)
            } else {
                want.push_bytes(&op.b);
                Res::Count(1)
            }
        }
        3 => {
            want.push_bytes(&[op.a[0] & 0x7F]);
            want.push_bytes(&[op.b[0] & 0x7F]);
            Res::Unit
        }
        _ => Res::Unit,
    }
}

fn mk_never<S: anstream::stream::RawStream>(s: S) -> AutoStream<S> {
    AutoStream::new(s, ColorChoice::Never)
}
fn mk_always_ansi<S: anstream::stream::RawStream>(s: S) -> AutoStream<S> {
    AutoStream::new(s, ColorChoice::AlwaysAnsi)
}
fn mk_always<S: anstream::stream::RawStream>(s: S) -> AutoStream<S> {
    AutoStream::new(s, ColorChoice::Always)
}

/// In-memory raw stream of a concrete type (hook: `anstream::stream::verif::Sealed`).  The
/// Never queries use it instead of `&mut dyn Write`: CBMC resolves a `dyn Write` call inside
/// the stream against every `Write` implementation in the program, which made one symbolic
/// byte through `AutoStream<&mut dyn Write>` cost more than 20 minutes and 14 GB.  The sink
/// holds 4 bytes so that the harness-wide unwind bound can be 5: the bound applies to the
/// strip loops too, and at 10 they alone exhaust 14 GB.
struct Raw(Sink<4>);

impl std::io::Write for Raw {
    fn write(&mut self, buf: &[u8]) -> std::io::Result<usize> {
        self.0.push_bytes(buf);
        Ok(buf.len())
    }
    fn flush(&mut self) -> std::io::Result<()> {
        Ok(())
    }
}
impl anstream::stream::verif::Sealed for Raw {}
impl anstream::stream::IsTerminal for Raw {
    fn is_terminal(&self) -> bool {
        false
    }
}
impl anstream::stream::RawStream for Raw {}
impl anstream::stream::AsLockedWrite for Raw {
    type Write<'w> = &'w mut Self;
    fn as_locked_write(&mut self) -> Self::Write<'_> {
        self
    }
}

macro_rules! never_case {
    ($name:ident, $ctor:path, $kind:expr, $la:expr) => {
        /// Choice Never: one operation of a concrete kind and payload length with symbolic
        /// payload bytes gives the same return value and the same bytes as a strip stream
        /// fed the same operation; taking the inner writer back returns all bytes delivered.
        #[kani::proof]
        #[kani::unwind(5)]
        fn $name() {
            let mut op1 = any_op();
            op1.kind = $kind;
            op1.la = $la;
            let mut auto = $ctor(Raw(Sink::new()));
            assert!(auto.current_choice() == ColorChoice::Never, "reported mode is the one in force");
            let mut strip = StripStream::new(Raw(Sink::new()));
            let r1 = apply(&mut auto, &op1);
            let s1 = apply(&mut strip, &op1);
            assert!(r1 == s1, "same result as the strip stream");
            let got = auto.into_inner().0;
            let want = strip.into_inner().0;
            assert!(sinks_equal(&got, &want), "inner writer received exactly what the strip stream delivers");
            kani::cover!(want.len >= 1 || $kind == 4);
            kani::cover!(want.len == 0);
        }
    };
}

never_case!(never_write_1, AutoStream::never, 0, 1);
never_case!(never_write_2, AutoStream::never, 0, 2);
never_case!(never_write_all_1, AutoStream::never, 1, 1);
never_case!(never_write_all_2, AutoStream::never, 1, 2);
never_case!(never_write_vectored_0, AutoStream::never, 2, 0);
never_case!(never_write_vectored_1, AutoStream::never, 2, 1);
never_case!(never_write_fmt, AutoStream::never, 3, 0);
never_case!(never_flush, AutoStream::never, 4, 0);
never_case!(new_never_write_all_1, mk_never, 1, 1);
never_case!(new_never_write_all_2, mk_never, 1, 2);
never_case!(new_never_write_fmt, mk_never, 3, 0);

macro_rules! never_vs_spec {
    ($name:ident, $ctor:path, $kind:expr, $la:expr) => {
        /// Choice Never, the expensive operation kinds (write / write_vectored / write_fmt):
        /// one stream only, compared with the strip specification instead of a second
        /// stream (C01/C03/C06 tie the strip stream to that specification).
        #[kani::proof]
        #[kani::unwind(5)]
        fn $name() {
            let mut op1 = any_op();
            op1.kind = $kind;
            op1.la = $la;
            // the bytes this operation presents to the stream
            let (bytes, n): ([u8; 2], usize) = match $kind {
                3 => ([op1.a[0] & 0x7F, op1.b[0] & 0x7F], 2),
                2 if $la == 0 => ([op1.b[0], 0], 1),
                _ => (op1.a, $la),
            };
            let (keep, ctl) = crate::strip_common::spec(&bytes, n);
            #[cfg(feature = "kf_c01_ctl_in_broken_utf8")]
            kani::assume(!ctl);
            let _ = ctl;
            let mut auto = $ctor(Raw(Sink::new()));
            assert!(auto.current_choice() == ColorChoice::Never, "reported mode is the one in force");
            let r1 = apply(&mut auto, &op1);
            let want = if $kind == 3 { Res::Unit } else { Res::Count(n) };
            assert!(r1 == want, "the whole buffer is consumed when the inner writer accepts everything");
            let got = auto.into_inner().0;
            let mut k = 0;
            let mut i = 0;
            while i < 2 {
                if i < n && keep[i] {
                    assert!(k < got.len && got.buf[k] == bytes[i], "visible text is delivered, in order");
                    k += 1;
                }
                i += 1;
            }
            assert!(got.len == k, "nothing but the visible text is delivered");
            kani::cover!(k == 0);
            kani::cover!(k == n);
        }
    };
}

never_vs_spec!(never_spec_write_1, AutoStream::never, 0, 1);
never_vs_spec!(never_spec_write_2, AutoStream::never, 0, 2);
never_vs_spec!(never_spec_write_vectored_0, AutoStream::never, 2, 0);
never_vs_spec!(never_spec_write_vectored_1, AutoStream::never, 2, 1);
never_vs_spec!(never_spec_write_fmt, AutoStream::never, 3, 0);
never_vs_spec!(new_never_spec_write_1, mk_never, 0, 1);

/// The strip state is carried from one call to the next exactly as in a strip stream: a
/// first call that ends inside an escape sequence, then any byte.
#[kani::proof]
#[kani::unwind(5)]
fn never_state_carried_across_calls() {
    let tail: [u8; 1] = kani::any();
    let mut auto = AutoStream::never(Raw(Sink::new()));
    let mut strip = StripStream::new(Raw(Sink::new()));
    assert!(auto.write_all(b"a\x1b[").is_ok() && strip.write_all(b"a\x1b[").is_ok());
    assert!(auto.write_all(&tail).is_ok() && strip.write_all(&tail).is_ok());
    let got = auto.into_inner().0;
    let want = strip.into_inner().0;
    assert!(sinks_equal(&got, &want), "inner writer received exactly what the strip stream delivers");
    assert!(want.len >= 1 && want.buf[0] == b'a', "the text before the sequence");
    kani::cover!(tail[0] == b'm' && want.len == 1);
}

/// The same through a borrowed `dyn Write` (the boxed / dynamic writers of the property's
/// quantifier): one byte, either text or ESC.
#[kani::proof]
#[kani::unwind(5)]
fn never_dyn_writer() {
    let b: [u8; 1] = kani::any();
    kani::assume(b[0] == 0x1b || b[0] == b'a');
    let mut got: Sink<4> = Sink::new();
    {
        let wg: &mut (dyn std::io::Write + 'static) = &mut got;
        let mut auto = AutoStream::never(wg);
        assert!(auto.current_choice() == ColorChoice::Never);
        assert!(auto.write_all(&b).is_ok());
        let _back: &mut (dyn std::io::Write + 'static) = auto.into_inner();
    }
    assert!(got.len == (b[0] == b'a') as usize, "stripped");
}

macro_rules! passthrough_case {
    ($name:ident, $ctor:path) => {
        /// AlwaysAnsi / Always: every byte forwarded unchanged, any two ops.
        #[kani::proof]
        #[kani::unwind(10)]
        fn $name() {
            let op1 = any_op();
            let op2 = any_op();
            let mut got: Sink<8> = Sink::new();
            let mut want: Sink<8> = Sink::new();
            {
                let wg: &mut (dyn std::io::Write + 'static) = &mut got;
                let mut auto = $ctor(wg);
                let c = auto.current_choice();
                assert!(c == ColorChoice::AlwaysAnsi || c == ColorChoice::Always, "reported mode is the one in force");
                let r1 = apply(&mut auto, &op1);
                let e1 = expect_passthrough(&mut want, &op1);
                assert!(r1 == e1, "first operation forwarded unchanged");
                let r2 = apply(&mut auto, &op2);
                let e2 = expect_passthrough(&mut want, &op2);
                assert!(r2 == e2, "second operation forwarded unchanged");
                let _back: &mut (dyn std::io::Write + 'static) = auto.into_inner();
            }
            assert!(sinks_equal(&got, &want), "every byte forwarded unchanged, in order");
            kani::cover!(op1.kind == 0 && op1.a[0] == 0x1B && got.len >= 1);
            kani::cover!(op1.kind == 3 && op2.kind == 2);
        }
    };
}

passthrough_case!(always_ansi_two_ops, AutoStream::always_ansi);
passthrough_case!(always_two_ops, AutoStream::always);
passthrough_case!(new_always_ansi_two_ops, mk_always_ansi);
passthrough_case!(new_always_two_ops, mk_always);

/// Owned in-memory writer: taking the inner writer back returns all bytes delivered so far.
#[kani::proof]
#[kani::unwind(5)]
fn vec_into_inner() {
    let a: [u8; 1] = kani::any();
    let never: bool = kani::any();
    let mut s = if never {
        AutoStream::never(Vec::<u8>::new())
    } else {
        AutoStream::always_ansi(Vec::<u8>::new())
    };
    assert!(s.write_all(&a).is_ok());
    let v = s.into_inner();
    if never {
        let (keep, _ctl) = crate::strip_common::spec(&a, 1);
        assert!(v.len() == keep[0] as usize, "never: the visible text");
        if keep[0] {
            assert!(v[0] == a[0]);
        }
    } else {
        assert!(v.len() == 1 && v[0] == a[0], "always-ansi: unchanged");
    }
    kani::cover!(never && v.len() == 1);
    kani::cover!(!never);
    core::mem::forget(v);
}
