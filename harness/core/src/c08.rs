//! C08: AutoStream modes -- Never strips exactly like the strip stream, AlwaysAnsi (and
//! Always on this platform) forwards every byte unchanged.
use crate::common::*;
use anstream::{AutoStream, ColorChoice, StripStream};
use std::io::Write as _;

/// One write-family operation with symbolic kind and symbolic 2-byte payload(s).
#[derive(Clone, Copy)]
struct Op {
    kind: u8,
    a: [u8; 2],
    la: usize,
    b: [u8; 1],
}

fn any_op() -> Op {
    let kind: u8 = kani::any();
    kani::assume(kind < 5);
    let la: usize = kani::any();
    kani::assume(la <= 2);
    let b: [u8; 1] = kani::any();
    // the formatted write takes text: keep its fragments ASCII
    Op {
        kind,
        a: kani::any(),
        la,
        b,
    }
}

/// Result of an operation, comparable across streams.
#[derive(PartialEq, Eq, Clone, Copy)]
enum Res {
    Count(usize),
    Unit,
    Failed,
}

fn apply(w: &mut dyn std::io::Write, op: &Op) -> Res {
    match op.kind {
        0 => match w.write(&op.a[..op.la]) {
            Ok(n) => Res::Count(n),
            Err(e) => {
                core::mem::forget(e);
                Res::Failed
            }
        },
        1 => match w.write_all(&op.a[..op.la]) {
            Ok(()) => Res::Unit,
            Err(e) => {
                core::mem::forget(e);
                Res::Failed
            }
        },
        2 => {
            let bufs = [std::io::IoSlice::new(&op.a[..op.la]), std::io::IoSlice::new(&op.b)];
            match w.write_vectored(&bufs) {
                Ok(n) => Res::Count(n),
                Err(e) => {
                    core::mem::forget(e);
                    Res::Failed
                }
            }
        }
        3 => {
            let x = [op.a[0] & 0x7F];
            let y = [op.b[0] & 0x7F];
            let sx = core::str::from_utf8(&x).unwrap();
            let sy = core::str::from_utf8(&y).unwrap();
            match w.write_fmt(format_args!("{}{}", sx, sy)) {
                Ok(()) => Res::Unit,
                Err(e) => {
                    core::mem::forget(e);
                    Res::Failed
                }
            }
        }
        _ => match w.flush() {
            Ok(()) => Res::Unit,
            Err(e) => {
                core::mem::forget(e);
                Res::Failed
            }
        },
    }
}

/// What a pass-through stream must hand to its inner writer for `op`.
fn expect_passthrough(want: &mut Sink<8>, op: &Op) -> Res {
    match op.kind {
        0 => {
            want.push_bytes(&op.a[..op.la]);
            Res::Count(op.la)
        }
        1 => {
            want.push_bytes(&op.a[..op.la]);
            Res::Unit
        }
        2 => {
            // the in-memory sink's default write_vectored writes the first non-empty slice
            if op.la > 0 {
                want.push_bytes(&op.a[..op.la]);
                Res::Count(op.la)
            } else {
                want.push_bytes(&op.b);
                Res::Count(1)
            }
        }
        3 => {
            want.push_bytes(&[op.a[0] & 0x7F]);
            want.push_bytes(&[op.b[0] & 0x7F]);
            Res::Unit
        }
        _ => Res::Unit,
    }
}

fn mk_never<S: anstream::stream::RawStream>(s: S) -> AutoStream<S> {
    AutoStream::new(s, ColorChoice::Never)
}
fn mk_always_ansi<S: anstream::stream::RawStream>(s: S) -> AutoStream<S> {
    AutoStream::new(s, ColorChoice::AlwaysAnsi)
}
fn mk_always<S: anstream::stream::RawStream>(s: S) -> AutoStream<S> {
    AutoStream::new(s, ColorChoice::Always)
}

macro_rules! never_case {
    ($name:ident, $ctor:path, $kind:expr) => {
        /// Choice Never: one operation of a concrete kind with a symbolic payload gives the same
        /// return value and the same bytes as a strip stream fed the same operation.
        #[kani::proof]
        #[kani::unwind(10)]
        fn $name() {
            let mut op1 = any_op();
            op1.kind = $kind;
            if $kind == 0 || $kind == 2 {
                // write / write_vectored: the short-write machinery is the most expensive code
                // in the repository for the solver; one byte is what fits the quick budget
                kani::assume(op1.la <= 1);
            }
            let mut got: Sink<8> = Sink::new();
            let mut want: Sink<8> = Sink::new();
            {
                let wg: &mut (dyn std::io::Write + 'static) = &mut got;
                let mut auto = $ctor(wg);
                assert!(auto.current_choice() == ColorChoice::Never, "reported mode is the one in force");
                let ww: &mut (dyn std::io::Write + 'static) = &mut want;
                let mut strip = StripStream::new(ww);
                let r1 = apply(&mut auto, &op1);
                let s1 = apply(&mut strip, &op1);
                assert!(r1 == s1, "same result as the strip stream");
                let _back: &mut (dyn std::io::Write + 'static) = auto.into_inner();
            }
            assert!(sinks_equal(&got, &want), "inner writer received exactly what the strip stream delivers");
            kani::cover!(want.len >= 1 || $kind == 4);
            kani::cover!(want.len == 0);
        }
    };
}

never_case!(never_write, AutoStream::never, 0);
never_case!(never_write_all, AutoStream::never, 1);
never_case!(never_write_vectored, AutoStream::never, 2);
never_case!(never_write_fmt, AutoStream::never, 3);
never_case!(never_flush, AutoStream::never, 4);
never_case!(new_never_write_all, mk_never, 1);
never_case!(new_never_write_fmt, mk_never, 3);

/// The strip state is carried from one call to the next exactly as in a strip stream: a
/// first call that ends inside an escape sequence, then any byte.
#[kani::proof]
#[kani::unwind(10)]
fn never_state_carried_across_calls() {
    let tail: [u8; 1] = kani::any();
    let mut got: Sink<8> = Sink::new();
    let mut want: Sink<8> = Sink::new();
    {
        let wg: &mut (dyn std::io::Write + 'static) = &mut got;
        let mut auto = AutoStream::never(wg);
        let ww: &mut (dyn std::io::Write + 'static) = &mut want;
        let mut strip = StripStream::new(ww);
        assert!(auto.write_all(b"a\x1b[").is_ok() && strip.write_all(b"a\x1b[").is_ok());
        assert!(auto.write_all(&tail).is_ok() && strip.write_all(&tail).is_ok());
    }
    assert!(sinks_equal(&got, &want), "inner writer received exactly what the strip stream delivers");
    assert!(want.len == 1, "the text before the sequence, nothing of the sequence");
    kani::cover!(tail[0] == b'm');
}

macro_rules! passthrough_case {
    ($name:ident, $ctor:path) => {
        /// AlwaysAnsi / Always: every byte forwarded unchanged, any two ops.
        #[kani::proof]
        #[kani::unwind(10)]
        fn $name() {
            let op1 = any_op();
            let op2 = any_op();
            let mut got: Sink<8> = Sink::new();
            let mut want: Sink<8> = Sink::new();
            {
                let wg: &mut (dyn std::io::Write + 'static) = &mut got;
                let mut auto = $ctor(wg);
                let c = auto.current_choice();
                assert!(c == ColorChoice::AlwaysAnsi || c == ColorChoice::Always, "reported mode is the one in force");
                let r1 = apply(&mut auto, &op1);
                let e1 = expect_passthrough(&mut want, &op1);
                assert!(r1 == e1, "first operation forwarded unchanged");
                let r2 = apply(&mut auto, &op2);
                let e2 = expect_passthrough(&mut want, &op2);
                assert!(r2 == e2, "second operation forwarded unchanged");
                let _back: &mut (dyn std::io::Write + 'static) = auto.into_inner();
            }
            assert!(sinks_equal(&got, &want), "every byte forwarded unchanged, in order");
            kani::cover!(op1.kind == 0 && op1.a[0] == 0x1B && got.len >= 1);
            kani::cover!(op1.kind == 3 && op2.kind == 2);
        }
    };
}

passthrough_case!(always_ansi_two_ops, AutoStream::always_ansi);
passthrough_case!(always_two_ops, AutoStream::always);
passthrough_case!(new_always_ansi_two_ops, mk_always_ansi);
passthrough_case!(new_always_two_ops, mk_always);

/// Owned in-memory writer: taking the inner writer back returns all bytes delivered so far.
#[kani::proof]
#[kani::unwind(10)]
fn vec_into_inner() {
    let a: [u8; 1] = kani::any();
    let never: bool = kani::any();
    let mut s = if never {
        AutoStream::never(Vec::<u8>::new())
    } else {
        AutoStream::always_ansi(Vec::<u8>::new())
    };
    assert!(s.write_all(&a).is_ok());
    let v = s.into_inner();
    if never {
        let (keep, _ctl) = crate::strip_common::spec(&a, 1);
        assert!(v.len() == keep[0] as usize, "never: the visible text");
        if keep[0] {
            assert!(v[0] == a[0]);
        }
    } else {
        assert!(v.len() == 1 && v[0] == a[0], "always-ansi: unchanged");
    }
    kani::cover!(never && v.len() == 1);
    kani::cover!(!never);
    core::mem::forget(v);
}
