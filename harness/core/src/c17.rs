//! C17: the ANSI fallback for coloured writes frames the data and reports true progress.
use crate::blocks;
use crate::common::*;
use anstyle::AnsiColor;
use anstyle_wincon::WinconStream as _;
use vmodels::sgr::{self, Col, SgrTok, Sty, Tok, RENDER};
use vmodels::strip::{Keep, StripModel};

const NEVER: usize = 99;

/// Scripted inner writer: records every inner write as one fragment, accepts at most
/// `accept` bytes per `write`, fails (bare ErrorKind) at inner call number `fail_at`.
struct Script {
    frag: [Sink<8>; 5],
    calls: usize,
    accept: usize,
    fail_at: usize,
    kind: std::io::ErrorKind,
}

impl Script {
    fn new(accept: usize, fail_at: usize, kind: std::io::ErrorKind) -> Self {
        Script {
            frag: core::array::from_fn(|_| Sink::new()),
            calls: 0,
            accept,
            fail_at,
            kind,
        }
    }
    fn record(&mut self, buf: &[u8]) {
        if self.calls < 5 {
            self.frag[self.calls].push_bytes(buf);
        }
    }
}

impl std::io::Write for Script {
    fn write(&mut self, buf: &[u8]) -> std::io::Result<usize> {
        if self.calls == self.fail_at {
            self.calls += 1;
            return Err(self.kind.into());
        }
        let n = if buf.len() < self.accept { buf.len() } else { self.accept };
        self.record(&buf[..n]);
        self.calls += 1;
        Ok(n)
    }
    fn write_all(&mut self, buf: &[u8]) -> std::io::Result<()> {
        if self.calls == self.fail_at {
            self.calls += 1;
            return Err(self.kind.into());
        }
        self.record(buf);
        self.calls += 1;
        Ok(())
    }
    fn flush(&mut self) -> std::io::Result<()> {
        Ok(())
    }
}

fn any_kind() -> std::io::ErrorKind {
    let k: u8 = kani::any();
    match k % 3 {
        0 => std::io::ErrorKind::Interrupted,
        1 => std::io::ErrorKind::WouldBlock,
        _ => std::io::ErrorKind::Other,
    }
}

fn interpret8(start: Sty, text: &Sink<8>, strip: &mut StripModel, visible: &mut usize) -> Option<Sty> {
    let mut tok: SgrTok<4> = SgrTok::new();
    let mut sty = start;
    let mut bad = false;
    blocks!(8, i, {
        if i < text.len {
            match tok.feed(text.buf[i]) {
                Tok::More => {}
                Tok::Bad => bad = true,
                Tok::Complete => match sgr::apply(sty, &tok.vals, &tok.sub, tok.n, RENDER) {
                    Some(t) => sty = t,
                    None => bad = true,
                },
            }
            if strip.step(text.buf[i]) != Keep::No {
                *visible += 1;
            }
        }
    });
    if bad || !tok.idle() {
        None
    } else {
        Some(sty)
    }
}

/// One shape = which of the two colours are given (concrete); colours, data, the accepted
/// count and the failing call are symbolic.
macro_rules! colored_case {
    ($name:ident, $has_fg:expr, $has_bg:expr, $fail_at:expr) => {
        colored_case!($name, $has_fg, $has_bg, $fail_at, None);
    };
    ($name:ident, $has_fg:expr, $has_bg:expr, $fail_at:expr, $len:expr) => {
        #[kani::proof]
        #[kani::unwind(10)]
        fn $name() {
            let fg = if $has_fg { Some(any_ansi()) } else { None };
            let bg = if $has_bg { Some(any_ansi()) } else { None };
            let data: [u8; 3] = kani::any();
            // quick tier: concrete data length (a symbolic slice length triples the cost of
            // the no-failure queries); the accepted count stays symbolic
            let len_opt: Option<usize> = $len;
            let len: usize = match len_opt {
                Some(l) => l,
                None => {
                    let l: usize = kani::any();
                    kani::assume(l <= 3);
                    l
                }
            };
            let accept: usize = kani::any();
            // the failing inner call is concrete per query (a symbolic one multiplies the
            // formatting machinery); its kind, the colours, the data and the accepted count are symbolic
            let fail_at: usize = $fail_at;
            let kind = any_kind();
            let mut script = Script::new(accept, fail_at, kind);
            let r = {
                let w: &mut dyn std::io::Write = &mut script;
                w.write_colored(fg, bg, &data[..len])
            };
            let codes = ($has_fg as usize) + ($has_bg as usize);
            let expected_calls = codes + 1 + if codes > 0 { 1 } else { 0 };
            match r {
                Ok(n) => {
                    assert!(fail_at >= expected_calls, "a failing inner write is never turned into success");
                    assert!(script.calls == expected_calls, "codes, one data write, reset");
                    let took = if len < accept { len } else { accept };
                    assert!(n == took, "returns the number of data bytes the writer accepted");
                    // framing: interpret the code fragments, compare the data fragment
                    let mut strip = StripModel::new();
                    let mut visible = 0usize;
                    let mut sty = Some(Sty::default());
                    let mut k = 0;
                    while k < codes {
                        sty = match sty {
                            Some(s) => interpret8(s, &script.frag[k], &mut strip, &mut visible),
                            None => None,
                        };
                        k += 1;
                    }
                    let want = Sty {
                        fg: fg.map(|c| Col::Ansi(ansi_index(c))),
                        bg: bg.map(|c| Col::Ansi(ansi_index(c))),
                        ul: None,
                        eff: 0,
                    };
                    assert!(sty == Some(want), "the codes select exactly the requested colours");
                    assert!(visible == 0, "codes are not visible text");
                    let d = &script.frag[codes];
                    assert!(d.len == n, "data bytes unchanged");
                    let mut i = 0;
                    let mut plain = true;
                    while i < 3 {
                        if i < n {
                            assert!(d.buf[i] == data[i], "data bytes unchanged");
                            if !(0x20..0x7F).contains(&data[i]) {
                                plain = false;
                            }
                        }
                        i += 1;
                    }
                    if plain {
                        let mut i = 0;
                        while i < 3 {
                            if i < n && strip.step(d.buf[i]) != Keep::No {
                                visible += 1;
                            }
                            i += 1;
                        }
                        assert!(visible == n, "stripping gives back the data");
                    }
                    if codes > 0 {
                        let mut s2 = StripModel::new();
                        let mut v2 = 0usize;
                        let after = interpret8(want, &script.frag[codes + 1], &mut s2, &mut v2);
                        assert!(after == Some(Sty::default()), "default state restored afterwards");
                        assert!(v2 == 0 && script.frag[codes + 1].len > 0);
                    }
                    kani::cover!(true);
                    kani::cover!(n < len);
                }
                Err(e) => {
                    assert!(fail_at < expected_calls, "no error invented");
                    assert!(e.kind() == kind, "error kind intact");
                    core::mem::forget(e);
                    kani::cover!(true);
                }
            }
        }
    };
}

colored_case!(colored_fg_bg_ok, true, true, NEVER);
colored_case!(colored_fg_bg_ok2, true, true, NEVER, Some(2));
colored_case!(colored_fg_only_ok2, true, false, NEVER, Some(2));
colored_case!(colored_bg_only_ok2, false, true, NEVER, Some(2));
colored_case!(colored_fg_bg_fail0, true, true, 0);
colored_case!(colored_fg_bg_fail1, true, true, 1);
colored_case!(colored_fg_bg_fail2, true, true, 2);
colored_case!(colored_fg_bg_fail3, true, true, 3);
colored_case!(colored_fg_only_ok, true, false, NEVER);
colored_case!(colored_fg_only_fail0, true, false, 0);
colored_case!(colored_fg_only_fail1, true, false, 1);
colored_case!(colored_fg_only_fail2, true, false, 2);
colored_case!(colored_bg_only_ok, false, true, NEVER);
colored_case!(colored_bg_only_fail0, false, true, 0);
colored_case!(colored_bg_only_fail1, false, true, 1);
colored_case!(colored_bg_only_fail2, false, true, 2);
colored_case!(colored_none_ok, false, false, NEVER);
colored_case!(colored_none_fail0, false, false, 0);

/// The in-memory writer (same generic function, other writer type): accepts everything,
/// frames the data with codes and a reset exactly when a colour is given.
#[kani::proof]
#[kani::unwind(10)]
fn colored_vec() {
    let fg = if kani::any() { Some(any_ansi()) } else { None };
    let bg = if kani::any() { Some(any_ansi()) } else { None };
    let data: [u8; 1] = kani::any();
    let mut v: Vec<u8> = Vec::new();
    let r = v.write_colored(fg, bg, &data);
    assert!(matches!(r, Ok(1)), "Vec accepts everything");
    let n = v.len();
    if fg.is_none() && bg.is_none() {
        assert!(n == 1 && v[0] == data[0], "no colour: the data and nothing else");
    } else {
        // ESC [ ... m  data  ESC [ 0 m
        assert!(n >= 1 + 4 + 4 && v[0] == 0x1B && v[1] == b'[', "codes first");
        assert!(v[n - 4] == 0x1B && v[n - 3] == b'[' && v[n - 2] == b'0' && v[n - 1] == b'm', "reset last");
        assert!(v[n - 5] == data[0] && v[n - 6] == b'm', "data unchanged between the codes and the reset");
    }
    core::mem::forget(v);
    kani::cover!(fg.is_some() && bg.is_some());
    kani::cover!(fg.is_none() && bg.is_none());
}
