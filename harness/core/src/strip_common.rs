//! Shared between C01 / C03 / C04 / C06 / C08: the strip specification evaluated on a
//! fixed-size input, and observation of the real adapters as index sets of the input.
use vmodels::strip::{is_forbidden, Keep, StripModel};

/// Per input byte: is it visible text according to the model?  Second component: the input
/// contains the known-finding class (a control byte swallowed into a broken UTF-8 sequence).
pub fn spec<const N: usize>(buf: &[u8; N], len: usize) -> ([bool; N], bool) {
    let mut m = StripModel::new();
    let mut keep = [false; N];
    let mut ctl = false;
    let mut i = 0;
    while i < N {
        if i < len {
            match m.step(buf[i]) {
                Keep::Yes => keep[i] = true,
                Keep::No => {}
                Keep::CtlInBrokenUtf8 => ctl = true,
            }
        }
        i += 1;
    }
    (keep, ctl)
}

/// Record a piece handed out by a strip adapter as a set of input indices.  Checks that
/// the piece lies inside `buf`, starts at or after `*pos` (in order, non-overlapping) and
/// holds no forbidden control byte.
pub fn mark<const N: usize>(buf: &[u8; N], piece: &[u8], pos: &mut usize, got: &mut [bool; N]) -> bool {
    let off = unsafe { piece.as_ptr().offset_from(buf.as_ptr()) };
    if off < 0 {
        return false;
    }
    let off = off as usize;
    if off < *pos || off + piece.len() > N || piece.is_empty() {
        return false;
    }
    let mut ok = true;
    let mut k = 0;
    while k < N {
        if k < piece.len() {
            if is_forbidden(piece[k]) {
                ok = false;
            }
            got[off + k] = true;
        }
        k += 1;
    }
    *pos = off + piece.len();
    ok
}

pub fn same<const N: usize>(a: &[bool; N], b: &[bool; N]) -> bool {
    let mut i = 0;
    let mut ok = true;
    while i < N {
        if a[i] != b[i] {
            ok = false;
        }
        i += 1;
    }
    ok
}

/// Is `buf` well-formed UTF-8 (Unicode Table 3-7)?
pub fn valid_utf8<const N: usize>(buf: &[u8; N]) -> bool {
    use vmodels::utf8::{Out, Utf8};
    let mut d = Utf8::default();
    let mut ok = true;
    let mut i = 0;
    while i < N {
        if let Out::Invalid = d.step(buf[i]) {
            ok = false;
        }
        i += 1;
    }
    ok && d.idle()
}

pub fn is_continuation(b: u8) -> bool {
    (0x80..=0xBF).contains(&b)
}
