//! C13: Style, effects and colour values obey their algebra.  The oracle is plain set
//! algebra on a 12-bit vector built and read through the public constants only.
use crate::common::*;
use anstyle::{Ansi256Color, AnsiColor, Effects, Style};

#[kani::proof]
#[kani::unwind(14)]
fn effects_set_laws() {
    let a = any_effect_bits();
    let b = any_effect_bits();
    let ea = effects_from_bits(a);
    let eb = effects_from_bits(b);
    // the conversion itself round-trips (so `effects_bits` is a faithful observation)
    assert!(effects_bits(ea) == a);
    assert!(effects_bits(ea.insert(eb)) == (a | b), "insert is union");
    assert!(effects_bits(ea | eb) == (a | b), "| is union");
    assert!(effects_bits(ea.remove(eb)) == (a & !b), "remove is difference");
    assert!(effects_bits(ea - eb) == (a & !b), "- is difference");
    assert!(ea.contains(eb) == (a & b == b), "contains is superset");
    assert!(effects_bits(ea.clear()) == 0, "clear");
    assert!(ea.clear().is_plain());
    assert!(ea.is_plain() == (a == 0), "is_plain");
    assert!(Effects::new().is_plain());
    let on: bool = kani::any();
    assert!(effects_bits(ea.set(eb, on)) == if on { a | b } else { a & !b }, "set");
    let mut c = ea;
    c |= eb;
    assert!(effects_bits(c) == (a | b), "|=");
    let mut d = ea;
    d -= eb;
    assert!(effects_bits(d) == (a & !b), "-=");
    assert!((ea == eb) == (a == b), "equality is set equality");
    kani::cover!(a != 0 && b != 0 && a & b == 0);
    kani::cover!(a & b != 0 && a != b);
}

#[kani::proof]
#[kani::unwind(14)]
fn effects_iter_order() {
    let a = any_effect_bits();
    let ea = effects_from_bits(a);
    // iteration yields exactly the members, each once, in declaration order
    let mut seen: u16 = 0;
    let mut last: i32 = -1;
    let mut count = 0u32;
    for e in ea.iter() {
        let bits = effects_bits(e);
        assert!(bits.count_ones() == 1, "one effect at a time");
        let pos = bits.trailing_zeros() as i32;
        assert!(pos > last, "declaration order");
        last = pos;
        seen |= bits;
        count += 1;
    }
    assert!(seen == a, "exactly the members");
    assert!(count == a.count_ones());
    kani::cover!(count == 12);
    kani::cover!(count == 0);
    kani::cover!(count == 3);
}

const NAMES: [&str; 12] = [
    "BOLD",
    "DIMMED",
    "ITALIC",
    "UNDERLINE",
    "DOUBLE_UNDERLINE",
    "CURLY_UNDERLINE",
    "DOTTED_UNDERLINE",
    "DASHED_UNDERLINE",
    "BLINK",
    "INVERT",
    "HIDDEN",
    "STRIKETHROUGH",
];

/// A `fmt::Write` that tokenises the debug text fragment by fragment (core::fmt hands
/// literal pieces and `{}` arguments over as whole strings) and records which names occur,
/// in which order, and that the punctuation is `Effects(` name (` | ` name)* `)`.
struct DebugTokens {
    stage: u8, // 0: expect "Effects(", 1: expect name or ")", 2: expect " | " or ")", 3: done
    seen: u16,
    last: i32,
    ok: bool,
    recognised: bool,
}

impl core::fmt::Write for DebugTokens {
    fn write_str(&mut self, s: &str) -> core::fmt::Result {
        if s.is_empty() {
            return Ok(());
        }
        match self.stage {
            0 => {
                if s == "Effects(" {
                    self.stage = 1;
                } else {
                    self.recognised = false;
                }
            }
            1 | 2 if s == ")" => {
                // a separator must be followed by a name
                if self.stage == 1 && self.seen != 0 {
                    self.ok = false;
                }
                self.stage = 3;
            }
            1 => {
                let mut k = 0;
                let mut found = false;
                while k < 12 {
                    if s == NAMES[k] {
                        found = true;
                        if (k as i32) <= self.last {
                            self.ok = false;
                        }
                        self.last = k as i32;
                        self.seen |= 1 << k;
                    }
                    k += 1;
                }
                if !found {
                    self.recognised = false;
                }
                self.stage = 2;
            }
            2 => {
                if s == " | " {
                    self.stage = 1;
                } else {
                    self.recognised = false;
                }
            }
            _ => self.ok = false,
        }
        Ok(())
    }
}

/// Every single effect prints as `Effects(<its declared name>)` -- byte-exact, concrete.
#[kani::proof]
#[kani::unwind(42)]
fn effects_debug_single_names() {
    use core::fmt::Write as _;
    let mut i = 0;
    while i < 12 {
        let mut real: Sink<40> = Sink::new();
        let _ = write!(real, "{:?}", EFFECTS[i]);
        let mut want: Sink<40> = Sink::new();
        want.push_bytes(b"Effects(");
        want.push_bytes(NAMES[i].as_bytes());
        want.push_bytes(b")");
        assert!(sinks_equal(&real, &want), "single effect debug text");
        i += 1;
    }
    let mut real: Sink<40> = Sink::new();
    let _ = write!(real, "{:?}", Effects::new());
    assert!(real.bytes() == b"Effects()");
    kani::cover!(i == 12);
}

macro_rules! effects_debug_names_case {
    ($name:ident, $mask:expr) => {
        effects_debug_names_case!($name, $mask, false);
    };
    ($name:ident, $mask:expr, $exact:expr) => {
        /// For every effect set within the mask the debug text names exactly the members,
        /// in declaration order.
        #[kani::proof]
        #[kani::unwind(18)]
        fn $name() {
            use core::fmt::Write as _;
            // `$exact`: the set is a compile-time constant (separators, order and structure of
            // multi-member sets at negligible cost); otherwise every subset of the mask
            let a: u16 = if $exact {
                $mask
            } else {
                let a = any_effect_bits();
                kani::assume(a & !$mask == 0);
                a
            };
            let ea = effects_from_bits(a);
            let mut t = DebugTokens {
                stage: 0,
                seen: 0,
                last: -1,
                ok: true,
                recognised: true,
            };
            let _ = write!(t, "{:?}", ea);
            assert!(t.recognised, "HARNESS-LIMIT: debug text not delivered as whole fragments");
            assert!(t.ok && t.stage == 3, "debug text structure");
            assert!(t.seen == a, "debug text names exactly the members");
            kani::cover!(a == $mask);
            kani::cover!(a == 0 || $exact);
            kani::cover!(a.count_ones() == 2 || $exact);
        }
    };
}
// complete (all 4096 sets): needs more than 24 GB, thorough tier
effects_debug_names_case!(effects_debug_names, 0xFFFu16);
// 6-bit windows do not help (the 12 conditional fragments are executed symbolically whatever
// is assumed about the bits: 23 GB each): thorough tier as well
effects_debug_names_case!(effects_debug_names_lo, 0x03Fu16);
effects_debug_names_case!(effects_debug_names_hi, 0xFC0u16);
// quick tier: three concrete multi-member sets (all twelve, alternating, two members);
// every single-member set is decided byte-exact by effects_debug_single_names
effects_debug_names_case!(effects_debug_names_all12, 0xFFFu16, true);
effects_debug_names_case!(effects_debug_names_alternating, 0xA55u16, true);
effects_debug_names_case!(effects_debug_names_two, 0x801u16, true);

#[kani::proof]
#[kani::unwind(14)]
fn style_setters_getters() {
    let s = any_style();
    let c = any_opt_color();
    let e = effects_from_bits(any_effect_bits());
    let t = s.fg_color(c);
    assert!(t.get_fg_color() == c);
    assert!(t.get_bg_color() == s.get_bg_color());
    assert!(t.get_underline_color() == s.get_underline_color());
    assert!(t.get_effects() == s.get_effects());
    let t = s.bg_color(c);
    assert!(t.get_bg_color() == c);
    assert!(t.get_fg_color() == s.get_fg_color());
    assert!(t.get_underline_color() == s.get_underline_color());
    assert!(t.get_effects() == s.get_effects());
    let t = s.underline_color(c);
    assert!(t.get_underline_color() == c);
    assert!(t.get_fg_color() == s.get_fg_color());
    assert!(t.get_bg_color() == s.get_bg_color());
    assert!(t.get_effects() == s.get_effects());
    let t = s.effects(e);
    assert!(t.get_effects() == e);
    assert!(t.get_fg_color() == s.get_fg_color());
    assert!(t.get_bg_color() == s.get_bg_color());
    assert!(t.get_underline_color() == s.get_underline_color());
    assert!(
        s.is_plain()
            == (s.get_fg_color().is_none()
                && s.get_bg_color().is_none()
                && s.get_underline_color().is_none()
                && s.get_effects().is_plain())
    );
    assert!(Style::new().is_plain());
    // colour constructors
    if let (Some(f), Some(b)) = (c, s.get_bg_color()) {
        let t = match f {
            anstyle::Color::Ansi(x) => x.on(b),
            anstyle::Color::Ansi256(x) => x.on(b),
            anstyle::Color::Rgb(x) => x.on(b),
        };
        assert!(t == Style::new().fg_color(Some(f)).bg_color(Some(b)));
        assert!(f.on(b) == t);
        assert!(f.on_default() == Style::new().fg_color(Some(f)));
    }
    kani::cover!(c.is_some() && !s.is_plain());
    kani::cover!(c.is_none());
}

#[kani::proof]
#[kani::unwind(14)]
fn style_convenience_and_ops() {
    let s = any_style();
    let b = any_effect_bits();
    let e = effects_from_bits(b);
    let base = effects_bits(s.get_effects());
    let with = |x: Effects| s.effects(s.get_effects().insert(x));
    assert!(s.bold() == with(Effects::BOLD));
    assert!(s.dimmed() == with(Effects::DIMMED));
    assert!(s.italic() == with(Effects::ITALIC));
    assert!(s.underline() == with(Effects::UNDERLINE));
    assert!(s.blink() == with(Effects::BLINK));
    assert!(s.invert() == with(Effects::INVERT));
    assert!(s.hidden() == with(Effects::HIDDEN));
    assert!(s.strikethrough() == with(Effects::STRIKETHROUGH));
    let u = s | e;
    assert!(effects_bits(u.get_effects()) == (base | b));
    assert!(u.get_fg_color() == s.get_fg_color() && u.get_bg_color() == s.get_bg_color());
    assert!(u.get_underline_color() == s.get_underline_color());
    let d = s - e;
    assert!(effects_bits(d.get_effects()) == (base & !b));
    assert!(d.get_fg_color() == s.get_fg_color() && d.get_bg_color() == s.get_bg_color());
    assert!(d.get_underline_color() == s.get_underline_color());
    let mut m = s;
    m |= e;
    assert!(m == u);
    let mut m = s;
    m -= e;
    assert!(m == d);
    kani::cover!(base & b != 0 && base != b);
}

#[kani::proof]
#[kani::unwind(14)]
fn style_eq_effects() {
    let s = any_style();
    let b = any_effect_bits();
    let e = effects_from_bits(b);
    let expect = s.get_fg_color().is_none()
        && s.get_bg_color().is_none()
        && s.get_underline_color().is_none()
        && effects_bits(s.get_effects()) == b;
    assert!((s == e) == expect, "style == effects iff same effects and no colours");
    assert!(Style::from(e) == Style::new().effects(e));
    kani::cover!(expect && b != 0);
    kani::cover!(!expect && effects_bits(s.get_effects()) == b);
}

#[kani::proof]
fn ansi_256_bijection() {
    let i: u8 = kani::any();
    let c = Ansi256Color(i);
    assert!(c.index() == i);
    match c.into_ansi() {
        Some(a) => {
            assert!(i < 16);
            assert!(ansi_index(a) == i, "index i is the i-th palette colour");
            assert!(Ansi256Color::from_ansi(a) == c);
            assert!(Ansi256Color::from(a) == c);
        }
        None => assert!(i >= 16),
    }
    let a = any_ansi();
    let back = Ansi256Color::from_ansi(a);
    assert!(back.index() == ansi_index(a));
    assert!(back.into_ansi() == Some(a));
    assert!(Ansi256Color::from(i) == c);
    kani::cover!(i == 15);
    kani::cover!(i == 16);
}

#[kani::proof]
fn bright_projection() {
    let a = any_ansi();
    let i = ansi_index(a);
    let up = a.bright(true);
    let down = a.bright(false);
    assert!(ansi_index(up) == (i | 8), "bright(true): same hue, bright");
    assert!(ansi_index(down) == (i & 7), "bright(false): same hue, normal");
    assert!(up.is_bright() && !down.is_bright());
    assert!(a.is_bright() == (i >= 8));
    assert!(up.bright(true) == up && down.bright(false) == down, "idempotent");
    assert!(up.bright(false) == down && down.bright(true) == up);
    kani::cover!(i == 12);
    kani::cover!(i == 4);
}
