//! Native cross-check of the reference tables (src/reference.rs): every reference value is
//! rendered by the target library itself and the escape codes are read back with the SGR
//! model, so "this library value denotes that colour / effect" is not just our reading of
//! the documentation.  Run by `./check C16` before the solver queries (plain `cargo test`).
use vadapt::reference::*;
use vmodels::sgr::{self, Col, Sty, RENDER};

fn interpret(bytes: &[u8]) -> Sty {
    sgr::interpret_bytes::<24>(Sty::default(), bytes, bytes.len(), RENDER)
        .unwrap_or_else(|| panic!("not pure SGR: {:?}", String::from_utf8_lossy(bytes)))
}

/// 16-colour values and palette indices 0..=15 are the same colours
fn norm(c: Option<Col>) -> Option<Col> {
    match c {
        Some(Col::Idx(i)) if i < 16 => Some(Col::Ansi(i)),
        other => other,
    }
}

fn same(a: Sty, b: Sty) -> bool {
    norm(a.fg) == norm(b.fg) && norm(a.bg) == norm(b.bg) && norm(a.ul) == norm(b.ul) && a.eff == b.eff
}

fn prefix_before_x(s: &str) -> &[u8] {
    let i = s.find('x').expect("payload");
    &s.as_bytes()[..i]
}

fn colours() -> Vec<Col> {
    let mut v: Vec<Col> = (0..16).map(Col::Ansi).collect();
    v.extend([0u8, 7, 8, 15, 16, 100, 196, 231, 232, 255].map(Col::Idx));
    v.extend([(0, 0, 0), (255, 255, 255), (1, 2, 3), (200, 100, 50)].map(|(r, g, b)| Col::Rgb(r, g, b)));
    v
}

const BASIC: [u16; 8] = [sgr::BOLD, sgr::DIMMED, sgr::ITALIC, sgr::UNDERLINE, sgr::BLINK, sgr::INVERT, sgr::HIDDEN, sgr::STRIKETHROUGH];

fn effect_sets() -> Vec<u16> {
    let mut v = vec![0u16];
    v.extend(BASIC);
    v.push(sgr::BOLD | sgr::UNDERLINE);
    v.push(BASIC.iter().fold(0, |a, b| a | b));
    v
}

#[test]
fn ansi_term_tables() {
    for fg in colours().into_iter().map(Some).chain([None]) {
        for bg in [None, Some(Col::Ansi(4)), Some(Col::Ansi(12)), Some(Col::Idx(200)), Some(Col::Rgb(9, 8, 7))] {
            for eff in effect_sets() {
                let m = Sty { fg, bg, ul: None, eff };
                let text = ansi_term_style(m).paint("x").to_string();
                let got = interpret(prefix_before_x(&text));
                // ansi_term cannot say "bright": a bright foreground is bold + hue, a bright
                // background keeps its hue only
                let mut want = m;
                if let Some(Col::Ansi(i)) = want.fg {
                    if i >= 8 {
                        want.fg = Some(Col::Ansi(i - 8));
                        want.eff |= sgr::BOLD;
                    }
                }
                if let Some(Col::Ansi(i)) = want.bg {
                    want.bg = Some(Col::Ansi(i & 7));
                }
                assert!(same(got, want), "ansi_term {:?}: rendered {:?} reads as {:?}", m, text, got);
            }
        }
    }
}

#[test]
fn crossterm_tables() {
    use crossterm::style::{Attributes, ContentStyle, StyledContent};
    for c in colours() {
        for slot in 0..3 {
            let mut st = ContentStyle::default();
            let mut want = Sty::default();
            match slot {
                0 => {
                    st.foreground_color = Some(crossterm_color(c));
                    want.fg = Some(c);
                }
                1 => {
                    st.background_color = Some(crossterm_color(c));
                    want.bg = Some(c);
                }
                _ => {
                    st.underline_color = Some(crossterm_color(c));
                    want.ul = Some(c);
                }
            }
            let text = StyledContent::new(st, "x").to_string();
            let got = interpret(prefix_before_x(&text));
            assert!(same(got, want), "crossterm colour {:?} slot {}: {:?} reads as {:?}", c, slot, text, got);
        }
    }
    for (bit, attr) in CROSSTERM_ATTRS {
        let mut a = Attributes::default();
        a.set(attr);
        let st = ContentStyle { attributes: a, ..Default::default() };
        let text = StyledContent::new(st, "x").to_string();
        let got = interpret(prefix_before_x(&text));
        assert_eq!(got.eff, bit, "crossterm attribute {:?}: {:?}", attr, text);
    }
}

#[test]
fn owo_tables() {
    use owo_colors::OwoColorize;
    for fg in colours().into_iter().map(Some).chain([None]) {
        for bg in [None, Some(Col::Ansi(12)), Some(Col::Idx(200))] {
            for eff in effect_sets() {
                // owo-colors 4.x omits the ';' between a background code and an effect when no
                // foreground is set ("\x1b[1041m"): a rendering bug of that library, not a
                // question about what its values denote -- skip that combination
                if fg.is_none() && bg.is_some() && eff != 0 {
                    continue;
                }
                let m = Sty { fg, bg, ul: None, eff };
                let text = "x".style(owo_style(m)).to_string();
                let got = interpret(prefix_before_x(&text));
                assert!(same(got, m), "owo {:?}: {:?} reads as {:?}", m, text, got);
            }
        }
    }
}

#[test]
fn termcolor_tables() {
    use termcolor::{Ansi, ColorSpec, WriteColor};
    for c in colours() {
        for intense in [false, true] {
            let mut spec = ColorSpec::new();
            // the spec's own reset (emitted first) is part of termcolor's rendering
            spec.set_fg(Some(termcolor_color(c))).set_intense(intense);
            let mut w = Ansi::new(Vec::new());
            w.set_color(&spec).unwrap();
            let got = interpret(&w.into_inner());
            let want_fg = match c {
                Col::Ansi(i) => Col::Ansi((i & 7) + if intense { 8 } else { 0 }),
                other => other,
            };
            assert!(norm(got.fg) == norm(Some(want_fg)), "termcolor {:?} intense={}: reads as {:?}", c, intense, got);
        }
    }
    let mut spec = ColorSpec::new();
    spec.set_bold(true).set_dimmed(true).set_italic(true).set_underline(true).set_strikethrough(true);
    let mut w = Ansi::new(Vec::new());
    w.set_color(&spec).unwrap();
    let got = interpret(&w.into_inner());
    assert_eq!(got.eff, sgr::BOLD | sgr::DIMMED | sgr::ITALIC | sgr::UNDERLINE | sgr::STRIKETHROUGH);
}

#[test]
fn yansi_tables() {
    use yansi::Paint;
    yansi::enable();
    for fg in colours().into_iter().map(Some).chain([None]) {
        for bg in [None, Some(Col::Ansi(12)), Some(Col::Rgb(1, 2, 3))] {
            for eff in effect_sets() {
                let m = Sty { fg, bg, ul: None, eff };
                let st = yansi_style(fg.map(yansi_color), bg.map(yansi_color), eff);
                let text = "x".paint(st).to_string();
                let got = interpret(prefix_before_x(&text));
                assert!(same(got, m), "yansi {:?}: {:?} reads as {:?}", m, text, got);
            }
        }
    }
    // "no colour" spelled Primary renders as the default colour as well
    let st = yansi::Style::new().fg(yansi::Color::Primary).bg(yansi::Color::Primary).bold();
    let text = "x".paint(st).to_string();
    let got = interpret(prefix_before_x(&text));
    assert!(got.fg.is_none() && got.bg.is_none() && got.eff == sgr::BOLD, "{:?}", text);
}
