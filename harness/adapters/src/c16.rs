//! C16 harnesses: every style value, per adapter.
use crate::reference::*;
use vmodels::sgr::{self, Col, Sty};

fn any_ansi_index() -> u8 {
    let i: u8 = kani::any();
    kani::assume(i < 16);
    i
}

fn ansi_from_index(i: u8) -> anstyle::AnsiColor {
    use anstyle::AnsiColor::*;
    match i {
        0 => Black,
        1 => Red,
        2 => Green,
        3 => Yellow,
        4 => Blue,
        5 => Magenta,
        6 => Cyan,
        7 => White,
        8 => BrightBlack,
        9 => BrightRed,
        10 => BrightGreen,
        11 => BrightYellow,
        12 => BrightBlue,
        13 => BrightMagenta,
        14 => BrightCyan,
        _ => BrightWhite,
    }
}

fn any_col() -> Col {
    let k: u8 = kani::any();
    kani::assume(k < 3);
    match k {
        0 => Col::Ansi(any_ansi_index()),
        1 => Col::Idx(kani::any()),
        _ => Col::Rgb(kani::any(), kani::any(), kani::any()),
    }
}

fn any_opt_col() -> Option<Col> {
    if kani::any() {
        Some(any_col())
    } else {
        None
    }
}

fn color_of(c: Col) -> anstyle::Color {
    match c {
        Col::Ansi(i) => anstyle::Color::Ansi(ansi_from_index(i)),
        Col::Idx(i) => anstyle::Color::Ansi256(anstyle::Ansi256Color(i)),
        Col::Rgb(r, g, b) => anstyle::Color::Rgb(anstyle::RgbColor(r, g, b)),
    }
}

const EFFECTS: [anstyle::Effects; 12] = [
    anstyle::Effects::BOLD,
    anstyle::Effects::DIMMED,
    anstyle::Effects::ITALIC,
    anstyle::Effects::UNDERLINE,
    anstyle::Effects::DOUBLE_UNDERLINE,
    anstyle::Effects::CURLY_UNDERLINE,
    anstyle::Effects::DOTTED_UNDERLINE,
    anstyle::Effects::DASHED_UNDERLINE,
    anstyle::Effects::BLINK,
    anstyle::Effects::INVERT,
    anstyle::Effects::HIDDEN,
    anstyle::Effects::STRIKETHROUGH,
];

/// An arbitrary abstract style and the anstyle value denoting it.
fn any_pair() -> (Sty, anstyle::Style) {
    let eff: u16 = kani::any();
    kani::assume(eff < (1 << 12));
    let m = Sty {
        fg: any_opt_col(),
        bg: any_opt_col(),
        ul: any_opt_col(),
        eff,
    };
    let mut e = anstyle::Effects::new();
    let mut i = 0;
    while i < 12 {
        if eff & (1 << i) != 0 {
            e = e.insert(EFFECTS[i]);
        }
        i += 1;
    }
    let s = anstyle::Style::new()
        .fg_color(m.fg.map(color_of))
        .bg_color(m.bg.map(color_of))
        .underline_color(m.ul.map(color_of))
        .effects(e);
    (m, s)
}

#[kani::proof]
#[kani::unwind(14)]
fn ansi_term() {
    let (m, s) = any_pair();
    let got = anstyle_ansi_term::to_ansi_term(s);
    let want = ansi_term_style(m);
    assert!(got.foreground == want.foreground, "ansi_term foreground: hue / index / RGB kept");
    assert!(got.background == want.background, "ansi_term background: hue / index / RGB kept");
    assert!(got.is_bold == want.is_bold, "ansi_term bold (effect, or bright foreground)");
    assert!(got.is_dimmed == want.is_dimmed);
    assert!(got.is_italic == want.is_italic);
    assert!(got.is_underline == want.is_underline);
    assert!(got.is_blink == want.is_blink);
    assert!(got.is_reverse == want.is_reverse);
    assert!(got.is_hidden == want.is_hidden);
    assert!(got.is_strikethrough == want.is_strikethrough);
    kani::cover!(m.fg == Some(Col::Ansi(12)));
    kani::cover!(matches!(m.bg, Some(Col::Rgb(_, _, _))) && m.eff == 0xFFF);
}

#[kani::proof]
#[kani::unwind(20)]
fn crossterm() {
    let (m, s) = any_pair();
    #[cfg(feature = "kf_c16_crossterm_underline_kinds")]
    kani::assume(
        m.eff
            & (sgr::DOUBLE_UNDERLINE | sgr::CURLY_UNDERLINE | sgr::DOTTED_UNDERLINE | sgr::DASHED_UNDERLINE)
            == 0
    );
    let got = anstyle_crossterm::to_crossterm(s);
    assert!(got.foreground_color == m.fg.map(crossterm_color), "crossterm foreground");
    assert!(got.background_color == m.bg.map(crossterm_color), "crossterm background");
    assert!(got.underline_color == m.ul.map(crossterm_color), "crossterm underline colour");
    // exactly the attributes that denote the style's effects
    let mut i = 0;
    while i < CROSSTERM_ALL_SETTING.len() {
        let a = CROSSTERM_ALL_SETTING[i];
        let mut wanted = false;
        let mut k = 0;
        while k < CROSSTERM_ATTRS.len() {
            if CROSSTERM_ATTRS[k].1 == a && m.eff & CROSSTERM_ATTRS[k].0 != 0 {
                wanted = true;
            }
            k += 1;
        }
        assert!(got.attributes.has(a) == wanted, "crossterm attribute set denotes the effects");
        i += 1;
    }
    kani::cover!(m.fg == Some(Col::Ansi(12)));
    kani::cover!(m.eff & sgr::STRIKETHROUGH != 0);
}

#[kani::proof]
#[kani::unwind(14)]
fn owo_colors() {
    let (m, s) = any_pair();
    let got = anstyle_owo_colors::to_owo_style(s);
    let want = owo_style(m);
    assert!(got == want, "owo style denotes the same colours and effects");
    if let Some(c) = m.fg {
        assert!(anstyle_owo_colors::to_owo_colors(color_of(c)) == owo_color(c), "owo colour");
    }
    kani::cover!(m.fg == Some(Col::Ansi(12)));
    kani::cover!(m.eff & sgr::STRIKETHROUGH != 0 && m.bg.is_some());
}

#[kani::proof]
#[kani::unwind(14)]
fn termcolor() {
    let (m, s) = any_pair();
    let bright_fg = matches!(m.fg, Some(Col::Ansi(i)) if i >= 8);
    let bright_bg = matches!(m.bg, Some(Col::Ansi(i)) if i >= 8);
    let normal_fg = matches!(m.fg, Some(Col::Ansi(i)) if i < 8);
    let normal_bg = matches!(m.bg, Some(Col::Ansi(i)) if i < 8);
    let got = anstyle_termcolor::to_termcolor_spec(s);
    assert!(got.fg().copied() == m.fg.map(termcolor_color), "termcolor foreground: hue / index / RGB kept");
    assert!(got.bg().copied() == m.bg.map(termcolor_color), "termcolor background: hue / index / RGB kept");
    assert!(got.bold() == (m.eff & sgr::BOLD != 0));
    assert!(got.dimmed() == (m.eff & sgr::DIMMED != 0));
    assert!(got.italic() == (m.eff & sgr::ITALIC != 0));
    assert!(got.underline() == (m.eff & sgr::UNDERLINE != 0));
    #[cfg(not(feature = "kf_c16_termcolor_strikethrough"))]
    assert!(got.strikethrough() == (m.eff & sgr::STRIKETHROUGH != 0), "termcolor strikethrough");
    // brightness is the spec-wide `intense` flag: expressible whenever the 16-colour
    // colours present agree about it
    #[cfg(not(feature = "kf_c16_termcolor_intense"))]
    {
        if (bright_fg || bright_bg) && !(normal_fg || normal_bg) {
            assert!(got.intense(), "termcolor: brightness kept through `intense`");
        }
    }
    if !(bright_fg || bright_bg) {
        assert!(!got.intense(), "termcolor: no brightness invented");
    }
    if let Some(c) = m.fg {
        assert!(anstyle_termcolor::to_termcolor_color(color_of(c)) == termcolor_color(c));
    }
    kani::cover!(m.fg == Some(Col::Ansi(12)));
    kani::cover!(m.eff & sgr::STRIKETHROUGH != 0);
}

#[kani::proof]
#[kani::unwind(14)]
fn yansi() {
    let (m, s) = any_pair();
    let got = anstyle_yansi::to_yansi_style(s);
    // "no colour" may be spelled None or Primary (the terminal's default)
    match m.fg {
        Some(c) => assert!(got.foreground == Some(yansi_color(c)), "yansi foreground"),
        None => assert!(got.foreground.is_none() || got.foreground == Some(yansi::Color::Primary)),
    }
    match m.bg {
        Some(c) => assert!(got.background == Some(yansi_color(c)), "yansi background"),
        None => assert!(got.background.is_none() || got.background == Some(yansi::Color::Primary)),
    }
    let want = yansi_style(got.foreground, got.background, m.eff);
    assert!(got == want, "yansi attributes denote the effects");
    if let Some(c) = m.fg {
        assert!(anstyle_yansi::to_yansi_color(color_of(c)) == yansi_color(c));
    }
    kani::cover!(m.fg == Some(Col::Ansi(12)));
    kani::cover!(m.eff & sgr::HIDDEN != 0);
}

#[kani::proof]
#[kani::unwind(14)]
fn syntect() {
    use syntect::highlighting::{Color, FontStyle, Style};
    let fg = Color {
        r: kani::any(),
        g: kani::any(),
        b: kani::any(),
        a: kani::any(),
    };
    let bg = Color {
        r: kani::any(),
        g: kani::any(),
        b: kani::any(),
        a: kani::any(),
    };
    let bits: u8 = kani::any();
    let font = FontStyle::from_bits_truncate(bits);
    let st = Style {
        foreground: fg,
        background: bg,
        font_style: font,
    };
    let got = anstyle_syntect::to_anstyle(st);
    assert!(got.get_fg_color() == Some(anstyle::Color::Rgb(anstyle::RgbColor(fg.r, fg.g, fg.b))));
    assert!(got.get_bg_color() == Some(anstyle::Color::Rgb(anstyle::RgbColor(bg.r, bg.g, bg.b))));
    assert!(got.get_underline_color().is_none());
    let e = got.get_effects();
    assert!(e.contains(anstyle::Effects::BOLD) == font.contains(FontStyle::BOLD));
    assert!(e.contains(anstyle::Effects::ITALIC) == font.contains(FontStyle::ITALIC));
    assert!(e.contains(anstyle::Effects::UNDERLINE) == font.contains(FontStyle::UNDERLINE));
    let others = anstyle::Effects::DIMMED
        | anstyle::Effects::DOUBLE_UNDERLINE
        | anstyle::Effects::CURLY_UNDERLINE
        | anstyle::Effects::DOTTED_UNDERLINE
        | anstyle::Effects::DASHED_UNDERLINE
        | anstyle::Effects::BLINK
        | anstyle::Effects::INVERT
        | anstyle::Effects::HIDDEN
        | anstyle::Effects::STRIKETHROUGH;
    assert!((e - others) == e, "no other effect invented");
    assert!(anstyle_syntect::to_anstyle_color(fg) == anstyle::Color::Rgb(anstyle::RgbColor(fg.r, fg.g, fg.b)));
    assert!(anstyle_syntect::to_anstyle_effects(font) == e);
    kani::cover!(font.contains(FontStyle::BOLD | FontStyle::UNDERLINE));
    kani::cover!(bits == 0);
}

// ---- witnesses of recorded findings: concrete inputs on which the property fails while
// ---- the defect is present (expected to FAIL; reported as KNOWN-FINDING by the driver)

#[kani::proof]
fn kf_witness_termcolor_intense() {
    let s = anstyle::Style::new().fg_color(Some(anstyle::AnsiColor::BrightRed.into()));
    let got = anstyle_termcolor::to_termcolor_spec(s);
    assert!(got.fg().copied() == Some(termcolor::Color::Red));
    assert!(got.intense(), "termcolor: brightness kept through `intense`");
}

#[kani::proof]
fn kf_witness_termcolor_strikethrough() {
    let s = anstyle::Style::new().strikethrough();
    let got = anstyle_termcolor::to_termcolor_spec(s);
    assert!(got.strikethrough(), "termcolor strikethrough");
}

#[kani::proof]
fn kf_witness_crossterm_curly_underline() {
    let s = anstyle::Style::new().effects(anstyle::Effects::CURLY_UNDERLINE);
    let got = anstyle_crossterm::to_crossterm(s);
    assert!(
        got.attributes.has(crossterm::style::Attribute::Undercurled),
        "crossterm attribute set denotes the effects"
    );
}
