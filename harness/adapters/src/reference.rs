//! Reference tables: for each target library, the value that denotes a given abstract
//! colour / effect set.  Index convention of the 16-colour palette: 0..=7 normal
//! (black, red, green, yellow, blue, magenta, cyan, white), 8..=15 bright.
use vmodels::sgr::{self, Col, Sty};

// ------------------------------------------------------------------ ansi_term
/// ansi_term has eight colours (Purple = magenta); brightness is not expressible for a
/// colour itself -- a bright *foreground* is conventionally "bold + hue".
pub fn ansi_term_hue(i: u8) -> ansi_term::Colour {
    use ansi_term::Colour::*;
    match i & 7 {
        0 => Black,
        1 => Red,
        2 => Green,
        3 => Yellow,
        4 => Blue,
        5 => Purple,
        6 => Cyan,
        _ => White,
    }
}

pub fn ansi_term_colour(c: Col) -> ansi_term::Colour {
    match c {
        Col::Ansi(i) => ansi_term_hue(i),
        Col::Idx(i) => ansi_term::Colour::Fixed(i),
        Col::Rgb(r, g, b) => ansi_term::Colour::RGB(r, g, b),
    }
}

pub fn ansi_term_style(s: Sty) -> ansi_term::Style {
    let bright_fg = matches!(s.fg, Some(Col::Ansi(i)) if i >= 8);
    ansi_term::Style {
        foreground: s.fg.map(ansi_term_colour),
        background: s.bg.map(ansi_term_colour),
        is_bold: s.eff & sgr::BOLD != 0 || bright_fg,
        is_dimmed: s.eff & sgr::DIMMED != 0,
        is_italic: s.eff & sgr::ITALIC != 0,
        is_underline: s.eff & sgr::UNDERLINE != 0,
        is_blink: s.eff & sgr::BLINK != 0,
        is_reverse: s.eff & sgr::INVERT != 0,
        is_hidden: s.eff & sgr::HIDDEN != 0,
        is_strikethrough: s.eff & sgr::STRIKETHROUGH != 0,
    }
}

// ------------------------------------------------------------------ crossterm
/// crossterm names the normal colours Dark*, "Grey" is normal white, "DarkGrey" is bright
/// black, the unprefixed names are the bright colours.
pub fn crossterm_color(c: Col) -> crossterm::style::Color {
    use crossterm::style::Color::*;
    match c {
        Col::Ansi(i) => match i {
            0 => Black,
            1 => DarkRed,
            2 => DarkGreen,
            3 => DarkYellow,
            4 => DarkBlue,
            5 => DarkMagenta,
            6 => DarkCyan,
            7 => Grey,
            8 => DarkGrey,
            9 => Red,
            10 => Green,
            11 => Yellow,
            12 => Blue,
            13 => Magenta,
            14 => Cyan,
            _ => White,
        },
        Col::Idx(i) => AnsiValue(i),
        Col::Rgb(r, g, b) => Rgb { r, g, b },
    }
}

/// (effect bit, crossterm attribute) for everything crossterm can express
pub const CROSSTERM_ATTRS: [(u16, crossterm::style::Attribute); 12] = [
    (sgr::BOLD, crossterm::style::Attribute::Bold),
    (sgr::DIMMED, crossterm::style::Attribute::Dim),
    (sgr::ITALIC, crossterm::style::Attribute::Italic),
    (sgr::UNDERLINE, crossterm::style::Attribute::Underlined),
    (sgr::DOUBLE_UNDERLINE, crossterm::style::Attribute::DoubleUnderlined),
    (sgr::CURLY_UNDERLINE, crossterm::style::Attribute::Undercurled),
    (sgr::DOTTED_UNDERLINE, crossterm::style::Attribute::Underdotted),
    (sgr::DASHED_UNDERLINE, crossterm::style::Attribute::Underdashed),
    (sgr::BLINK, crossterm::style::Attribute::SlowBlink),
    (sgr::INVERT, crossterm::style::Attribute::Reverse),
    (sgr::HIDDEN, crossterm::style::Attribute::Hidden),
    (sgr::STRIKETHROUGH, crossterm::style::Attribute::CrossedOut),
];

/// every crossterm attribute that sets something (none of these may appear unasked)
pub const CROSSTERM_ALL_SETTING: [crossterm::style::Attribute; 17] = [
    crossterm::style::Attribute::Bold,
    crossterm::style::Attribute::Dim,
    crossterm::style::Attribute::Italic,
    crossterm::style::Attribute::Underlined,
    crossterm::style::Attribute::DoubleUnderlined,
    crossterm::style::Attribute::Undercurled,
    crossterm::style::Attribute::Underdotted,
    crossterm::style::Attribute::Underdashed,
    crossterm::style::Attribute::SlowBlink,
    crossterm::style::Attribute::RapidBlink,
    crossterm::style::Attribute::Reverse,
    crossterm::style::Attribute::Hidden,
    crossterm::style::Attribute::CrossedOut,
    crossterm::style::Attribute::Fraktur,
    crossterm::style::Attribute::Framed,
    crossterm::style::Attribute::Encircled,
    crossterm::style::Attribute::OverLined,
];

// ------------------------------------------------------------------ owo-colors
pub fn owo_color(c: Col) -> owo_colors::DynColors {
    use owo_colors::AnsiColors::*;
    match c {
        Col::Ansi(i) => owo_colors::DynColors::Ansi(match i {
            0 => Black,
            1 => Red,
            2 => Green,
            3 => Yellow,
            4 => Blue,
            5 => Magenta,
            6 => Cyan,
            7 => White,
            8 => BrightBlack,
            9 => BrightRed,
            10 => BrightGreen,
            11 => BrightYellow,
            12 => BrightBlue,
            13 => BrightMagenta,
            14 => BrightCyan,
            _ => BrightWhite,
        }),
        Col::Idx(i) => owo_colors::DynColors::Xterm(owo_colors::XtermColors::from(i)),
        Col::Rgb(r, g, b) => owo_colors::DynColors::Rgb(r, g, b),
    }
}

pub fn owo_style(s: Sty) -> owo_colors::Style {
    let mut o = owo_colors::Style::new();
    if let Some(c) = s.fg {
        o = o.color(owo_color(c));
    }
    if let Some(c) = s.bg {
        o = o.on_color(owo_color(c));
    }
    if s.eff & sgr::BOLD != 0 {
        o = o.bold();
    }
    if s.eff & sgr::DIMMED != 0 {
        o = o.dimmed();
    }
    if s.eff & sgr::ITALIC != 0 {
        o = o.italic();
    }
    if s.eff & sgr::UNDERLINE != 0 {
        o = o.underline();
    }
    if s.eff & sgr::BLINK != 0 {
        o = o.blink();
    }
    if s.eff & sgr::INVERT != 0 {
        o = o.reversed();
    }
    if s.eff & sgr::HIDDEN != 0 {
        o = o.hidden();
    }
    if s.eff & sgr::STRIKETHROUGH != 0 {
        o = o.strikethrough();
    }
    o
}

// ------------------------------------------------------------------ termcolor
/// termcolor has eight hues; brightness is the spec-wide `intense` flag.
pub fn termcolor_color(c: Col) -> termcolor::Color {
    use termcolor::Color::*;
    match c {
        Col::Ansi(i) => match i & 7 {
            0 => Black,
            1 => Red,
            2 => Green,
            3 => Yellow,
            4 => Blue,
            5 => Magenta,
            6 => Cyan,
            _ => White,
        },
        Col::Idx(i) => Ansi256(i),
        Col::Rgb(r, g, b) => Rgb(r, g, b),
    }
}

// ------------------------------------------------------------------ yansi
pub fn yansi_color(c: Col) -> yansi::Color {
    use yansi::Color::*;
    match c {
        Col::Ansi(i) => match i {
            0 => Black,
            1 => Red,
            2 => Green,
            3 => Yellow,
            4 => Blue,
            5 => Magenta,
            6 => Cyan,
            7 => White,
            8 => BrightBlack,
            9 => BrightRed,
            10 => BrightGreen,
            11 => BrightYellow,
            12 => BrightBlue,
            13 => BrightMagenta,
            14 => BrightCyan,
            _ => BrightWhite,
        },
        Col::Idx(i) => Fixed(i),
        Col::Rgb(r, g, b) => Rgb(r, g, b),
    }
}

/// yansi style with the given (already checked) colours and the reference attributes.
pub fn yansi_style(fg: Option<yansi::Color>, bg: Option<yansi::Color>, eff: u16) -> yansi::Style {
    let mut y = yansi::Style::new();
    y.foreground = fg;
    y.background = bg;
    if eff & sgr::BOLD != 0 {
        y = y.bold();
    }
    if eff & sgr::DIMMED != 0 {
        y = y.dim();
    }
    if eff & sgr::ITALIC != 0 {
        y = y.italic();
    }
    if eff & sgr::UNDERLINE != 0 {
        y = y.underline();
    }
    if eff & sgr::BLINK != 0 {
        y = y.blink();
    }
    if eff & sgr::INVERT != 0 {
        y = y.invert();
    }
    if eff & sgr::HIDDEN != 0 {
        y = y.conceal();
    }
    if eff & sgr::STRIKETHROUGH != 0 {
        y = y.strike();
    }
    y
}
