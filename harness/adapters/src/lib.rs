//! C16: conversions to other styling crates preserve colours and effects.
//!
//! The solver compares the converted value with the target library's value that *denotes
//! the same SGR attributes*, built through the library's public API from reference tables
//! written here from each library's documentation.  `tests/render.rs` (native) renders the
//! reference values with the libraries themselves and reads the escape codes back with the
//! SGR model, so the tables' reading of each library is confirmed independently.
#![allow(dead_code, unused_imports, clippy::all)]

pub mod reference;

#[cfg(all(kani, feature = "c16"))]
pub mod c16;
