//! Native observation for C12: parse the given LS_COLORS value with the real parser and
//! print the resulting style in a canonical form.
fn main() {
    let arg = std::env::args().nth(1).unwrap_or_default();
    match anstyle_ls::parse(&arg) {
        None => println!("None"),
        Some(s) => println!(
            "fg={:?} bg={:?} ul={:?} effects={:?}",
            s.get_fg_color(),
            s.get_bg_color(),
            s.get_underline_color(),
            s.get_effects()
        ),
    }
}
