//! Native observation for C09: prints what the real code decides in the *real* process
//! environment (the driver sets the variables and, for the terminal case, runs this
//! binary with stdout attached to a pty).  Output goes to stderr so stdout can be a tty.
//! arg1: global choice (auto|always-ansi|always|never)
fn main() {
    let g = std::env::args().nth(1).unwrap_or_else(|| "auto".into());
    let choice = match g.as_str() {
        "auto" => colorchoice::ColorChoice::Auto,
        "always-ansi" => colorchoice::ColorChoice::AlwaysAnsi,
        "always" => colorchoice::ColorChoice::Always,
        _ => colorchoice::ColorChoice::Never,
    };
    choice.write_global();
    let out = std::io::stdout();
    let decided = anstream::AutoStream::choice(&out);
    let v: Vec<u8> = Vec::new();
    let decided_vec = anstream::AutoStream::choice(&v);
    eprintln!(
        "stdout={:?} vec={:?} clicolor={:?} clicolor_force={} no_color={} term_supports_color={} term_supports_ansi_color={} truecolor={} is_ci={} tty={}",
        decided,
        decided_vec,
        anstyle_query::clicolor(),
        anstyle_query::clicolor_force(),
        anstyle_query::no_color(),
        anstyle_query::term_supports_color(),
        anstyle_query::term_supports_ansi_color(),
        anstyle_query::truecolor(),
        anstyle_query::is_ci(),
        std::io::IsTerminal::is_terminal(&out),
    );
}
