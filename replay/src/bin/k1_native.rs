//! Native evaluation of the real `anstyle_lossy::distance` (a crate-private function): its
//! source file is compiled into this binary as a module straight from /repo's working tree.
//! stdin: lines "r1 g1 b1 r2 g2 b2"; stdout: one distance per line.
#![allow(dead_code, unused_imports, missing_docs, clippy::all)]

#[path = "/repo/crates/anstyle-lossy/src/lib.rs"]
mod lossy;

// palette.rs refers to `crate::distance`
pub(crate) use lossy::distance;

fn main() {
    use std::io::BufRead;
    let stdin = std::io::stdin();
    for line in stdin.lock().lines() {
        let line = line.unwrap();
        let v: Vec<u8> = line.split_whitespace().map(|x| x.parse().unwrap()).collect();
        if v.len() != 6 {
            continue;
        }
        let d = lossy::distance(anstyle::RgbColor(v[0], v[1], v[2]), anstyle::RgbColor(v[3], v[4], v[5]));
        println!("{d}");
    }
}
