//! Native observation for C10: stdin lines
//!   "ansi r g b  r0 g0 b0 ... r15 g15 b15"  -> index (0..15) of rgb_to_ansi with that palette
//!   "xterm r g b"                           -> index of rgb_to_xterm
//!   "x2a i  r0 g0 b0 ... r15 g15 b15"       -> index of xterm_to_ansi(i) with that palette
fn idx(c: anstyle::AnsiColor) -> u8 {
    anstyle::Ansi256Color::from_ansi(c).index()
}
fn main() {
    use std::io::BufRead;
    for line in std::io::stdin().lock().lines() {
        let line = line.unwrap();
        let mut it = line.split_whitespace();
        let kind = it.next().unwrap_or("");
        let v: Vec<u8> = it.map(|x| x.parse().unwrap()).collect();
        let pal = |off: usize| {
            let mut p = [anstyle::RgbColor(0, 0, 0); 16];
            for i in 0..16 {
                p[i] = anstyle::RgbColor(v[off + 3 * i], v[off + 3 * i + 1], v[off + 3 * i + 2]);
            }
            anstyle_lossy::palette::Palette(p)
        };
        match kind {
            "ansi" => println!("{}", idx(anstyle_lossy::rgb_to_ansi(anstyle::RgbColor(v[0], v[1], v[2]), pal(3)))),
            "xterm" => println!("{}", anstyle_lossy::rgb_to_xterm(anstyle::RgbColor(v[0], v[1], v[2])).index()),
            "x2a" => println!("{}", idx(anstyle_lossy::xterm_to_ansi(anstyle::Ansi256Color(v[0]), pal(1)))),
            _ => {}
        }
    }
}
