#!/usr/bin/env python3
"""Print the markdown table of seeded changes (DESIGN.md section 10) from seeded/*/meta.json."""
import json
from pathlib import Path

rows = []
for d in sorted((Path(__file__).resolve().parent.parent / "seeded").iterdir()):
    mp = d / "meta.json"
    if not mp.exists():
        continue
    m = json.loads(mp.read_text())
    conf = m.get("confirmation", {})
    ok = conf.get("suite_passes_with_change") and conf.get("demo_fails_with_change") and conf.get("demo_passes_without_change")
    res = []
    for k, v in sorted(m.get("checks", {}).items()):
        if v.get("caught"):
            q = [x.split("]")[1].split()[0] for x in v.get("failed_queries", []) if "kf_witness" not in x]
            res.append(f"**caught** by `./check {k.replace(':', ' --tier ')}` ({', '.join(sorted(set(q)))[:110]}; {v.get('seconds')} s)")
        else:
            res.append(f"not caught by {k} (exit {v.get('exit')})")
    note = m.get("note", "")
    what = (m.get("summary") or "").split(". ")[0][:170]
    rows.append(f"| {m['id']} | {m['property']} | {what} | {'yes' if ok else 'NO'} | {'; '.join(res) or 'not run'}{' — ' + note if note else ''} |")
print("| seed | property | change (first sentence of the sub-agent's description) | confirmed | result |")
print("|---|---|---|---|---|")
print("\n".join(rows))
