#!/usr/bin/env python3
"""Confirm a seeded change and try the checks on it, without touching /repo.

usage: seedtest.py <seed-id> <property> [<agent OUT dir>] [--check-only] [--tier quick]

1. fresh scratch worktree of /repo HEAD under /tmp/seed/<id>, patch applied
2. the repository's own test suite passes with the change            (confirmation)
3. the demonstration fails with the change and passes without it     (confirmation)
4. VERIF_REPO=<worktree> ./check <property>                          (does a check catch it?)
5. worktree and its build output removed
Results go to /verif/seeded/<id>/meta.json (patch.diff and the demo are stored next to it).
"""
import json
import os
import re
import shutil
import subprocess
import sys
import time
from pathlib import Path

VERIF = Path(__file__).resolve().parent.parent
SEEDED = VERIF / "seeded"


def sh(cmd, cwd=None, env=None, timeout=3600):
    e = dict(os.environ)
    e["CARGO_NET_OFFLINE"] = "true"
    if env:
        e.update(env)
    r = subprocess.run(cmd, shell=True, cwd=cwd, env=e, capture_output=True, text=True, timeout=timeout)
    return r.returncode, r.stdout + r.stderr


def main():
    args = [a for a in sys.argv[1:] if not a.startswith("--")]
    flags = [a for a in sys.argv[1:] if a.startswith("--")]
    sid, prop = args[0], args[1]
    out_dir = Path(args[2]) if len(args) > 2 else None
    tier = "quick"
    for f in flags:
        if f.startswith("--tier="):
            tier = f.split("=")[1]
    sdir = SEEDED / sid
    sdir.mkdir(parents=True, exist_ok=True)
    if out_dir:
        shutil.copy(out_dir / "patch.diff", sdir / "patch.diff")
        agent_meta = json.loads((out_dir / "meta.json").read_text())
        for f in out_dir.iterdir():
            if f.name.startswith("demo") and f.is_file():
                shutil.copy(f, sdir / f.name)
            elif f.name == "demo" and f.is_dir():
                shutil.rmtree(sdir / "demo", ignore_errors=True)
                shutil.copytree(f, sdir / "demo", ignore=shutil.ignore_patterns("target"))
    else:
        agent_meta = json.loads((sdir / "meta.json").read_text()).get("agent_meta", {})
    meta_path = sdir / "meta.json"
    meta = json.loads(meta_path.read_text()) if meta_path.exists() and not out_dir else {}
    meta.update({"id": sid, "property": prop, "agent_meta": agent_meta, "needs": agent_meta.get("needs"), "summary": agent_meta.get("summary")})

    w = Path("/tmp/seed") / sid
    subprocess.run(["git", "-C", "/repo", "worktree", "remove", "--force", str(w)], capture_output=True)
    shutil.rmtree(w, ignore_errors=True)
    w.parent.mkdir(parents=True, exist_ok=True)
    rc, out = sh(f"git -C /repo worktree add -q --detach {w} HEAD")
    assert rc == 0, out
    try:
        rc, out = sh(f"git apply {sdir / 'patch.diff'}", cwd=w)
        if rc != 0:
            meta["confirmation"] = {"applies": False, "error": out[-500:]}
            meta_path.write_text(json.dumps(meta, indent=1))
            print("patch does not apply:", out[-300:])
            return 2
        env = {"CARGO_TARGET_DIR": str(w / "target")}
        if "--check-only" not in flags:
            t0 = time.time()
            rc, out = sh("cargo test --workspace --no-fail-fast --offline 2>&1 | grep -E 'test result|FAILED|failed|error(\\[|:)'", cwd=w, env=env)
            fails = [l for l in out.splitlines() if "FAILED" in l or "failed;" in l and " 0 failed" not in l or l.startswith("error")]
            suite_ok = not fails and "test result: ok" in out
            # the demonstration
            demo_files = [f for f in sdir.iterdir() if f.name.startswith("demo") and f.suffix == ".rs"]
            demo_cmd = agent_meta.get("demo_cmd", "")
            demo_cmd = re.sub(r"/tmp/mut/[A-Za-z0-9]+", str(w), demo_cmd)
            demo_cmd = re.sub(r"(export )?CARGO_TARGET_DIR=\S+( &&)?", "", demo_cmd)
            # where the agent put the demo test
            placed = []
            for f in demo_files:
                crates = [p for p in agent_meta.get("files", []) if "crates/" in p]
                crate = None
                m = re.search(r"crates/([a-z0-9-]+)/", " ".join(crates) + " " + demo_cmd)
                if m:
                    crate = m.group(1)
                m2 = re.search(r"-p ([a-z0-9-]+)", demo_cmd)
                if m2:
                    crate = m2.group(1)
                if crate:
                    d = w / "crates" / crate / "tests"
                    d.mkdir(exist_ok=True)
                    shutil.copy(f, d / f.name)
                    placed.append(str(d / f.name))
            if (sdir / "demo").is_dir():
                # a stand-alone demonstration crate with absolute paths into the agent's tree
                orig = re.search(r"/tmp/mut/[A-Za-z0-9]+", agent_meta.get("demo_cmd", "") + json.dumps(agent_meta))
                d = w / "OUT" / "demo"
                shutil.rmtree(d, ignore_errors=True)
                shutil.copytree(sdir / "demo", d)
                for f in d.rglob("*"):
                    if f.is_file() and f.suffix in (".rs", ".toml"):
                        t = f.read_text()
                        if orig and orig.group(0) in t:
                            f.write_text(t.replace(orig.group(0), str(w)))
                shutil.copy(w / "Cargo.lock", d / "Cargo.lock")
            rc_with, out_with = sh(demo_cmd, cwd=w, env=env)
            sh(f"git apply -R {sdir / 'patch.diff'}", cwd=w)
            rc_without, out_without = sh(demo_cmd, cwd=w, env=env)
            sh(f"git apply {sdir / 'patch.diff'}", cwd=w)
            for p in placed:
                os.remove(p)
            meta["confirmation"] = {
                "applies": True,
                "suite_passes_with_change": suite_ok,
                "suite_summary": out.splitlines()[:3] + ["..."] if suite_ok else fails[:10],
                "demo_cmd": demo_cmd,
                "demo_fails_with_change": rc_with != 0,
                "demo_passes_without_change": rc_without == 0,
                "demo_tail_with_change": out_with[-400:],
                "seconds": round(time.time() - t0),
            }
            print(json.dumps({k: v for k, v in meta["confirmation"].items() if k.startswith(("suite_passes", "demo_fails", "demo_passes"))}))
        if "--confirm-only" in flags:
            meta_path.write_text(json.dumps(meta, indent=1))
            return 0
        # the check
        t0 = time.time()
        rc, out = sh(f"./check {prop} --tier {tier}", cwd=VERIF, env={"VERIF_REPO": str(w)}, timeout=4 * 3600)
        viol = [l for l in out.splitlines() if l.startswith("VIOLATION")]
        meta.setdefault("checks", {})[f"{prop}:{tier}"] = {
            "exit": rc,
            "violation_lines": viol[:5],
            "failed_queries": [l.strip()[:200] for l in out.splitlines() if l.strip().startswith("[fail")][:10],
            "inconclusive": [l for l in out.splitlines() if l.startswith("INCONCLUSIVE")][:5],
            "seconds": round(time.time() - t0),
            "caught": rc == 1 and bool(viol),
        }
        print(f"check {prop} on {sid}: exit={rc} caught={rc == 1 and bool(viol)}")
        for l in viol[:3]:
            print("  ", l)
        meta_path.write_text(json.dumps(meta, indent=1))
        return 0
    finally:
        subprocess.run(["git", "-C", "/repo", "worktree", "remove", "--force", str(w)], capture_output=True)
        shutil.rmtree(w, ignore_errors=True)


if __name__ == "__main__":
    sys.exit(main())
