#!/bin/sh
# run the quick tier of the given properties one after another (each check already uses
# all cores); logs in /tmp/q_<ID>.log, summary in /tmp/queue.log
cd /verif
for p in "$@"; do
  echo "$(date +%H:%M:%S) start $p" >> /tmp/queue.log
  ./check "$p" --keep > /tmp/q_$p.log 2>&1
  echo "$(date +%H:%M:%S) done  $p exit=$?" >> /tmp/queue.log
done
