#!/usr/bin/env python3
"""Regenerate /verif/MANIFEST.json from the property registry (lib/props.py)."""
import json
import sys
from pathlib import Path

sys.path.insert(0, str(Path(__file__).resolve().parent))
import props  # noqa: E402

VERIF = Path(__file__).resolve().parent.parent

NOT_APPLICABLE = {
    "C11": "anstyle_git::parse is std string machinery end to end (split_whitespace, to_lowercase with Unicode tables, from_str_radix on sub-slices); CBMC does not finish symbolic execution for 3 free bytes in 10 min and there is no seam to stub without stubbing away the property (accepted spellings) itself; see DESIGN.md section 5",
    "C14": "render_svg builds ~1.5 KB of text through dozens of writeln!, BTreeMap, html_escape, unicode-width tables and an f64 ceil; deciding XML well-formedness symbolically needs an XML parser unrolled over that text: outside the reach of bounded model checking here; see DESIGN.md section 5",
    "C15": "segmentation is delegated to the third-party cansi crate and output to the roff crate, both heap/string builders that CBMC cannot get through symbolically; see DESIGN.md section 5",
}

PENDING = "solver harness not built yet in this revision of /verif (planned, see DESIGN.md section 4)"

TECH = {
    "C10": "SMT (z3 + cvc5) on MIR-derived encoding of the distance kernel + Kani/CBMC bounded model checking with the kernel stubbed",
}


def main():
    ids = [json.loads(l)["id"] for l in (VERIF / "properties.jsonl").read_text().splitlines() if l.strip()]
    checks = []
    na = []
    for pid in ids:
        spec = props.REGISTRY.get(pid)
        if spec is None:
            na.append({"property_id": pid, "reason": NOT_APPLICABLE.get(pid, PENDING)})
            continue
        checks.append(
            {
                "property_id": pid,
                "quick_cmd": f"./check {pid} --tier quick",
                "thorough_cmd": f"./check {pid} --tier thorough",
                "evidence_file": f"/verif/evidence/{pid}.json",
                "replay_cmd_template": f"./check {pid} --replay {{path}}",
                "engine": "kani-cbmc",
                "level_claimed": {
                    "category": spec.get("level", "model_checking"),
                    "text": spec.get("level_text", "")
                    or (
                        "Bounded model checking of the compiled real code (Kani -> CBMC -> CaDiCaL): each query holds for "
                        "every input value within the stated bound or returns a concrete counterexample that is replayed "
                        "natively before it is reported. Bounds: " + spec.get("bounds", {}).get("quick", "")
                    ),
                    "design_ref": f"DESIGN.md section 4, {pid}",
                },
                "level_note": "; ".join(spec.get("assumptions", []))
                + " | trusted: Kani 0.68 MIR->goto translation, CBMC 6.11, CaDiCaL, the reference models in harness/models"
                + (" | outside the claim: " + spec.get("outside", "") if spec.get("outside") else ""),
                "technique": TECH.get(pid, "solver-based checking: Kani/CBMC bounded model checking of the real code against an independent reference model, symbolic inputs"),
            }
        )
    manifest = {
        "version": 1,
        "setup_cmd": "./setup.sh",
        "hooks": {
            "guard": "cfg(any(kani, rust_cli_anstyle_verif))",
            "enable": "Kani sets cfg(kani) for every crate it compiles (harness crates depend on /repo's crates by path); native builds use RUSTFLAGS='--cfg rust_cli_anstyle_verif'",
            "baseline_off_cmd": "cd /repo && cargo nextest run --workspace --no-fail-fast --offline || cargo test --workspace --no-fail-fast --offline",
            "source_commits": props.HOOK_COMMITS,
            "add_only": True,
        },
        "engines": [
            {
                "name": "kani-cbmc",
                "path": "/verif/harness",
                "serves_properties": [c["property_id"] for c in checks],
                "kind_free_text": "Kani 0.68 proof harnesses (path-dependent on /repo) decided by CBMC 6.11 + CaDiCaL; driver ./check; native replay through Kani concrete playback",
            }
        ],
        "checks": checks,
        "not_applicable": na,
        "notes": "Exit 0 = all queries of the tier discharged; 1 = natively reproduced violation (VIOLATION line); 2 = inconclusive (timeout/OOM/build error/unwinding assertion/vacuity) - never reported as success. known_findings.json lists recorded and repaired defects.",
    }
    (VERIF / "MANIFEST.json").write_text(json.dumps(manifest, indent=1) + "\n")
    print(f"MANIFEST.json: {len(checks)} checks, {len(na)} not applicable")


if __name__ == "__main__":
    main()
