#!/bin/sh
# refresh the table of DESIGN.md section 10 from seeded/*/meta.json
python3 - <<'PY'
import subprocess,re
p='/verif/DESIGN.md'
s=open(p).read()
t=subprocess.run(['python3','/verif/lib/seedtable.py'],capture_output=True,text=True).stdout
s=re.sub(r'<!-- seedtable:begin -->.*<!-- seedtable:end -->',lambda m:'<!-- seedtable:begin -->\n'+t+'<!-- seedtable:end -->',s,flags=re.S)
open(p,'w').write(s)
PY
