#!/bin/sh
# stop every running check driver and its solver processes
pkill -9 -f "python3 ./check" 2>/dev/null
pkill -9 -f "/verif/check" 2>/dev/null
killall -9 cbmc cargo-kani kani-driver kani-compiler goto-instrument goto-cc 2>/dev/null
exit 0
