#!/bin/sh
# run seed tests one after another: seedqueue.sh c18b:C18 c19b:C19 ...
cd /verif
for sp in "$@"; do
  s=${sp%%:*}; p=${sp##*:}
  echo "$(date +%H:%M:%S) seed-start $s $p" >> /tmp/queue.log
  python3 lib/seedtest.py $s $p --check-only > /tmp/seed_$s.log 2>&1
  echo "$(date +%H:%M:%S) seed-done  $s $(grep -a '^check ' /tmp/seed_$s.log | tail -1)" >> /tmp/queue.log
done
