"""Evidence writer (EVIDENCE.schema.json).  Every number is measured on this run."""
import json
from pathlib import Path

import runner


def write(prop, spec, tier, seed, outcome, wall, partial=False):
    runner.EVIDENCE.mkdir(exist_ok=True)
    results = [r for r in outcome.results if r is not None]
    # witnesses of recorded findings are expected to fail: they are reported, not obligations
    obligations = [r for r in results if not r.job.expect_fail]
    ok = [r for r in obligations if r.status == "ok"]
    cover_set = set()
    for r in ok:
        for c in r.cover_names:
            cover_set.add(f"{r.job.name}: {c}")
    samples = []
    for r in results:
        samples.append(
            {
                "query": r.job.name,
                "crate": r.job.crate,
                "bound": r.job.bound,
                "status": r.status,
                "checks": r.job.checks,
                "wall_s": r.wall_s,
                "symex_s": round(r.symex_s, 2),
                "solver_s": round(r.solver_s, 2),
                "program_steps": r.steps,
                "sat_variables": r.vars,
                "sat_clauses": r.clauses,
                "properties_checked": r.checks_total,
                "properties_failed": r.checks_failed,
                "covers_satisfied": r.covers_sat,
                "covers_total": r.covers_total,
                "stubs": r.stubs,
                "failed": r.failed[:5],
                "known_finding_witness": r.job.expect_fail,
                "optional": r.job.optional,
            }
        )
    for s in outcome.extra_samples:
        samples.append(s)
    level = spec.get("level", "model_checking")
    n_ok = outcome.queries_ok
    coverage = {
        "evaluations": max(n_ok, 0),
        "distinct_nontrivial": len(cover_set) + outcome.extra_nontrivial,
        "rule": (
            "one evaluation = one solver query (a Kani/CBMC harness with concrete shape and symbolic values, "
            "or one SMT-LIB script) answered UNSAT/SUCCESSFUL over ALL values within its stated bound; "
            "distinct_nontrivial = number of distinct kani::cover! reachability witnesses the solver found "
            "SATISFIED inside successful queries (each proves the harness reaches an interesting region, "
            "i.e. the query is not vacuous)"
        ),
        "samples": samples,
        "functions_encoded": spec.get("functions", []),
        "bounds": spec.get("bounds", {}).get(tier, ""),
        "outside_bounds": spec.get("outside", ""),
        "queries_total": len(obligations) + outcome.extra_queries,
        "known_finding_witness_queries": len(results) - len(obligations),
        "queries_discharged": n_ok,
        "queries_skipped_optional": [r.job.name for r in results if r.job.optional and r.status != "ok"],
        "solver_time_s": round(sum(r.solver_s for r in results) + outcome.extra_solver_s, 2),
        "symex_time_s": round(sum(r.symex_s for r in results), 2),
        "engine": "Kani 0.68.0 / CBMC 6.11.0 / CaDiCaL" + (" + z3 4.8.12 + cvc5 1.0 on MIR->SMT-LIB" if outcome.extra_queries else ""),
        "known_findings_reported": outcome.known_lines,
        "inconclusive": outcome.inconclusive,
        "repo": runner.repo_revision(),
        "partial_run": partial,
    }
    if level == "model_checking":
        # Bounded model checking is symbolic: states are not enumerated one by one.  What is
        # measured per query is the size of the unwound program the solver reasons about.
        steps = sum(r.steps for r in ok)
        clauses = sum(r.clauses for r in ok)
        coverage.update(
            {
                "states": max(steps, 1) if ok else 0,
                "transitions": max(clauses, 1) if ok else 0,
                "traces_validated_against_impl": outcome.traces_validated,
                "states_transitions_meaning": (
                    "states = symbolic-execution steps of the unwound programs (CBMC 'size of program expression', summed over "
                    "the discharged queries): each is one SSA program state standing for ALL concrete states within the bound; "
                    "transitions = clauses of the SAT encodings of those programs' transition relations (summed); "
                    "traces_validated_against_impl = counterexample traces (plus recorded-finding witnesses) re-executed on the "
                    "natively compiled real code in this run"
                ),
            }
        )
    if level == "proof":
        coverage.update(
            {
                "obligations": len(obligations) + outcome.extra_queries,
                "discharged": n_ok,
                "checker_cmd": f"./check {prop} --tier {tier}",
                "trusted_base": spec.get("trusted", []),
                "exhaustive": bool(spec.get("exhaustive", {}).get(tier, True)),
            }
        )
    if level == "other":
        coverage["explanation"] = spec.get("explanation", "")
    ev = {
        "property_id": prop,
        "tier": tier,
        "seed": seed,
        "level": level,
        "coverage": coverage,
        "assumptions": spec.get("assumptions", []),
        "wall_s": wall,
        "violations": len(outcome.violations),
    }
    # a partial (debugging) run never replaces the evidence of a complete run
    target = runner.EVIDENCE / f"{prop}.json" if not partial else runner.WORK / f"partial-evidence-{prop}.json"
    target.parent.mkdir(parents=True, exist_ok=True)
    target.write_text(json.dumps(ev, indent=1))
