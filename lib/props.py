"""Property registry: which solver queries decide which property, per tier."""
from __future__ import annotations

import json
import os
import re
import shutil
from dataclasses import dataclass, field
from pathlib import Path

import runner
from runner import Job

REPLAY_DIR = runner.EVIDENCE / "replay"


@dataclass
class Outcome:
    results: list = field(default_factory=list)
    violations: list = field(default_factory=list)
    inconclusive: list = field(default_factory=list)
    known_lines: list = field(default_factory=list)
    queries_ok: int = 0
    covers: int = 0
    extra_samples: list = field(default_factory=list)
    extra_nontrivial: int = 0
    extra_queries: int = 0
    extra_solver_s: float = 0.0


def J(name, tier="quick", **kw):
    j = Job(name=name, **kw)
    j.tier = tier
    return j


# ---------------------------------------------------------------------------------------
# job lists
# ---------------------------------------------------------------------------------------


def jobs_c02(tier, seed):
    f = ["c02"]
    jobs = [
        J("c02::transition_table", features=f, timeout_s=300, bound="all 15 parser states x all 256 bytes (complete)"),
        J("c02::run_from_new_1", features=f, timeout_s=300, bound="every 1-byte stream from Parser::new()"),
        J("c02::run_from_new_2", features=f, timeout_s=600, bound="every 2-byte stream from Parser::new()"),
        J("c02::run_from_new_3", features=f, timeout_s=900, bound="every 3-byte stream from Parser::new()"),
    ]
    if tier == "thorough":
        jobs += [
            J("c02::run_from_new_4", features=f, timeout_s=3600, mem_gb=20, bound="every 4-byte stream from Parser::new()"),
            J("c02::run_from_new_5", features=f, timeout_s=7200, mem_gb=24, optional=True, bound="every 5-byte stream from Parser::new()"),
        ]
    return jobs


def jobs_c13(tier, seed):
    f = ["c13"]
    names = [
        ("effects_set_laws", "two free effect sets (4096 x 4096), complete"),
        ("effects_iter_order", "every effect set, complete"),
        ("effects_debug_single_names", "each of the 12 effects and the empty set, byte-exact"),
        ("effects_debug_names", "every effect set, complete (fragment-level tokenisation)"),
        ("style_setters_getters", "free style x free colours, complete"),
        ("style_convenience_and_ops", "free style x free effect sets, complete"),
        ("style_eq_effects", "free style x free effect set, complete"),
        ("ansi_256_bijection", "all 16 colours / all 256 indices, complete"),
        ("bright_projection", "all 16 colours, complete"),
    ]
    return [J(f"c13::{n}", features=f, timeout_s=600, bound=b) for n, b in names]


def jobs_c01(tier, seed):
    f = ["c01"]
    jobs = []
    ns = [1, 2, 3] if tier == "quick" else [1, 2, 3, 4, 5]
    for n in ns:
        to = {1: 300, 2: 600, 3: 900, 4: 3600, 5: 3 * 3600}[n]
        opt = n >= 5
        mem = 12 if n < 4 else 24
        jobs.append(J(f"c01::bytes_oneshot_{n}", features=f, timeout_s=to, mem_gb=mem, optional=opt, bound=f"strip_bytes: every byte string of length {n}"))
        jobs.append(J(f"c01::bytes_incremental_{n}", features=f, timeout_s=to, mem_gb=mem, optional=opt, bound=f"StripBytes::strip_next: every byte string of length {n}"))
        if n <= 4:
            jobs.append(J(f"c01::stream_{n}", features=f, timeout_s=to, mem_gb=mem, optional=n >= 4, bound=f"StripStream::write_all over &mut dyn Write: every byte string of length {n}"))
            jobs.append(J(f"c01::str_oneshot_{n}", features=f, timeout_s=to, mem_gb=mem, bound=f"strip_str: every UTF-8 string of {n} bytes"))
            jobs.append(J(f"c01::str_incremental_{n}", features=f, timeout_s=to, mem_gb=mem, bound=f"StripStr::strip_next: every UTF-8 string of {n} bytes"))
    return jobs


def jobs_c05(tier, seed):
    f = ["c05"]
    names = [
        ("display_roundtrip_full", "every style value (4096 effect sets x every colour in every slot), Display and render()"),
        ("write_to_roundtrip_full", "every style value, io::Write path"),
        ("color_render_fg_bg", "every colour, Color/AnsiColor/Ansi256Color/RgbColor render_fg/render_bg"),
        ("effects_render", "every effect set"),
        ("reset_forms", "every style x every prior terminal state: {:#}, render_reset, write_reset_to, Reset"),
        ("display_equals_write_to_bytes", "byte equality Display vs write_to: one effect + one colour in one slot, all values"),
        ("flags_width", "4 format strings x (one effect + one colour in one slot, all values)"),
        ("flags_fill", "4 format strings, same shape"),
        ("flags_precision", "4 format strings, same shape"),
        ("flags_alternate", "4 format strings, same shape"),
        ("flags_alternate2", "4 format strings, same shape"),
        ("flags_misc", "4 format strings, same shape"),
    ]
    return [J(f"c05::{n}", features=f, timeout_s=900, bound=b) for n, b in names]


REGISTRY = {
    "C01": {
        "jobs": jobs_c01,
        "level": "model_checking",
        "functions": [
            "anstream::adapter::{strip_bytes, StrippedBytes::next, StripBytes::strip_next, strip_str, StrippedStr::next, StripStr::strip_next}",
            "anstream::adapter::strip::{next_bytes, next_str, is_printable_bytes, is_utf8_continuation, from_utf8_unchecked, Utf8Parser::add}",
            "anstream::StripStream::<&mut dyn Write>::write_all (strip.rs write_all)",
            "anstyle_parse::state::state_change + STATE_CHANGES table",
            "utf8parse::Parser::advance",
        ],
        "bounds": {
            "quick": "every byte string of length <=3 (all 256 values per position) through strip_bytes, StripBytes and StripStream; every UTF-8 string of <=3 bytes through strip_str and StripStr",
            "thorough": "byte strings of length <=5 (length 5 optional), streams and UTF-8 strings <=4 bytes",
        },
        "outside": "inputs longer than the bound (the several-KiB generated streams of the property text); AutoStream::never is covered by C08",
        "assumptions": [
            "visible text is defined by vmodels::strip over the independent VT model",
            "for ill-formed UTF-8 the bytes of the printed U+FFFD are visible text, except a control byte that terminated the broken sequence",
        ],
    },
    "C05": {
        "jobs": jobs_c05,
        "level": "model_checking",
        "functions": [
            "anstyle::Style::{Display::fmt,fmt_to,render,write_to,render_reset,write_reset_to}",
            "anstyle::Effects::{render,write_to}, EffectsDisplay, EffectIndexIter",
            "anstyle::Color/AnsiColor/Ansi256Color/RgbColor::{render_fg,render_bg,render_underline,write_*_to}",
            "anstyle::color::DisplayBuffer::{write_str,write_code,as_str}",
            "anstyle::Reset",
            "core::fmt::{write, Formatter::pad, write_str} as compiled by Kani",
        ],
        "bounds": {
            "quick": "round trip and purity: complete over all style values; byte equality and the 24-entry flag grid: styles of the shape one effect + one colour (all values)",
            "thorough": "same",
        },
        "outside": "byte-level equality of Display vs write_to and of flagged vs unflagged output for styles with several effects/colours at once (their interpretation is covered); format strings outside the fixed grid",
        "assumptions": [
            "reference SGR interpreter vmodels::sgr (ECMA-48/xterm; underline kinds read as independent flags, as the style type represents them)",
            "leading zeros in a parameter denote the same value",
        ],
    },
    "C02": {
        "jobs": jobs_c02,
        "level": "model_checking",
        "functions": [
            "anstyle_parse::state::state_change",
            "anstyle_parse::state::definitions::unpack",
            "anstyle_parse::Parser::advance / perform_state_change / perform_action / osc_dispatch / process_utf8",
            "anstyle_parse::Params::{push,extend,is_full,clear,iter}",
            "utf8parse::Parser::advance",
        ],
        "bounds": {
            "quick": "transition function complete (15x256); lock-step runs from Parser::new(): every stream of <=3 bytes over all 256 values",
            "thorough": "as quick plus every stream of <=5 bytes; one-step refinement from an arbitrary valid parser state",
        },
        "outside": "streams longer than the run bound that are not covered by the one-step lemma's invariant; OSC payloads longer than the model buffer",
        "assumptions": [
            "reference model vmodels::vt (Williams' diagram + documented deviations) is the specification",
            "Kani's MIR->goto translation, CBMC 6.11 and CaDiCaL are sound",
        ],
    },
    "C13": {
        "jobs": jobs_c13,
        "level": "proof",
        "functions": [
            "anstyle::Effects::{new,is_plain,contains,insert,remove,clear,set,iter,BitOr,Sub,BitOrAssign,SubAssign,Debug}",
            "anstyle::Style::{fg_color,bg_color,underline_color,effects,bold..strikethrough,get_*,is_plain,BitOr,Sub,PartialEq<Effects>}",
            "anstyle::AnsiColor::{bright,is_bright}",
            "anstyle::Ansi256Color::{into_ansi,from_ansi,index}",
        ],
        "bounds": {"quick": "complete over the finite value space (bit-vector reasoning)", "thorough": "same"},
        "outside": "nothing within the stated laws; Debug checked through core::fmt into a fixed sink",
        "trusted": ["Kani 0.68 MIR->goto", "CBMC 6.11 + CaDiCaL", "core::fmt as compiled by Kani"],
        "assumptions": ["Effects values are exactly those constructible through the public API (12 bits)"],
    },
}


# ---------------------------------------------------------------------------------------
# running
# ---------------------------------------------------------------------------------------


def save_replay(prop, job, test) -> str:
    d = REPLAY_DIR / prop
    d.mkdir(parents=True, exist_ok=True)
    safe = re.sub(r"[^A-Za-z0-9_]+", "_", job.name)
    p = d / f"{safe}.json"
    p.write_text(
        json.dumps(
            {
                "property": prop,
                "harness": job.name,
                "crate": job.crate,
                "features": job.features,
                "stubbing": job.stubbing,
                "failed_check": test["description"],
                "test_fn": test["test_fn"],
                "values_in_any_order": runner.decode_values(test["code"]),
                "code": test["code"],
                "how_to_replay": f"./check {prop} --replay {p}",
            },
            indent=1,
        )
    )
    return str(p)


def confirm_failure(prop, crate_dir, job, idx, out: Outcome):
    """A harness failed: extract the solver's assignment, replay it on the natively compiled
    real code (dev profile, then release profile), report only what reproduces."""
    tests = runner.extract_playback(prop, crate_dir, job, idx)
    if not tests:
        out.inconclusive.append(f"{job.name}: FAILED but no concrete counterexample could be extracted")
        return
    reproduced_any = False
    for t in tests[:3]:
        rep, ran, txt = runner.native_playback(prop, job, t)
        rep_rel, ran_rel, _ = runner.native_playback(prop, job, t, profile_release=True) if rep else (False, False, "")
        if rep:
            path = save_replay(prop, job, t)
            runner.log(f"  counterexample for {job.name} reproduced natively (dev{' + release' if rep_rel else ''}): {t['description']}")
            out.violations.append(path)
            reproduced_any = True
            break
        else:
            runner.log(f"  counterexample for {job.name} did NOT reproduce natively (ran={ran}): {t['description']}\n{txt[-600:]}")
    if not reproduced_any:
        out.inconclusive.append(f"{job.name}: counterexample did not reproduce natively (encoding or harness problem)")


def run_property(prop, spec, tier, seed, kf, only=None) -> Outcome:
    out = Outcome()
    jobs = spec["jobs"](tier, seed)
    excl = [f["exclude_feature"] for f in kf if f.get("status") == "known" and f.get("exclude_feature")]
    for j in jobs:
        j.features = list(j.features) + [e for e in excl if e not in j.features]
    # witnesses of known findings (expected to fail while the defect is present) and of
    # repaired defects (ordinary regression queries)
    for f in kf:
        w = f.get("witness")
        if not w:
            continue
        jw = Job(
            name=w["harness"],
            crate=w.get("crate", "core"),
            features=list(w.get("features", [])),
            stubbing=w.get("stubbing", False),
            timeout_s=w.get("timeout_s", 600),
            bound="concrete witness input of finding " + f["id"],
            expect_fail=(f.get("status") == "known"),
            replay="none",
        )
        jw.finding = f
        jobs.append(jw)
    if only:
        jobs = [j for j in jobs if only in j.name]
    if "pre" in spec:
        spec["pre"](prop, tier, seed, out)
    results = runner.run_jobs(prop, jobs) if jobs else []
    out.results = results
    crate_dirs = {c: runner.WORK / prop / f"crate-{c}" for c in {j.crate for j in jobs}}
    for idx, r in enumerate(results):
        j = r.job
        if j.expect_fail:
            f = j.finding
            if r.status == "fail":
                out.known_lines.append(f"KNOWN-FINDING: property={prop} {f['id']}: {f['summary']}")
            elif r.status == "ok":
                runner.log(f"  note: known finding {f['id']} no longer reproduces on this tree")
            else:
                out.inconclusive.append(f"{j.name}: witness query {r.status}")
            continue
        if r.status == "ok":
            out.queries_ok += 1
            out.covers += r.covers_sat
        elif r.status == "fail":
            if j.replay == "playback":
                confirm_failure(prop, crate_dirs[j.crate], j, idx, out)
            else:
                handler = spec.get("custom_replay")
                if handler:
                    handler(prop, j, r, out)
                else:
                    out.inconclusive.append(f"{j.name}: FAILED; no native replay available for this query")
        elif j.optional and r.status in ("timeout", "oom"):
            runner.log(f"  optional query {j.name} hit its cap ({r.status}); the claim shrinks accordingly")
        else:
            out.inconclusive.append(f"{j.name}: {r.status} (log: {r.log})")
    if "post" in spec:
        spec["post"](prop, tier, seed, out)
    return out


def replay(prop, path) -> int:
    data = json.loads(Path(path).read_text())
    job = Job(name=data["harness"], crate=data["crate"], features=data["features"], stubbing=data.get("stubbing", False))
    test = {"test_fn": data["test_fn"], "code": data["code"], "description": data["failed_check"]}
    rep, ran, txt = runner.native_playback(prop, job, test)
    print(txt[-3000:])
    if rep:
        print(f"REPRODUCED property={prop} harness={data['harness']} check={data['failed_check']}")
        return 1
    print(f"not reproduced (ran={ran})")
    return 0

HOOK_COMMITS = [
    "1b93b23 verif hook: declare cfg(kani) and cfg(rust_cli_anstyle_verif) to check-cfg",
    "d0d3974 verif hook: construct/observe parser and params state (cfg-guarded)",
    "568540d verif hook: observe StripStream's carried state (cfg-guarded)",
    "d5d86a6 verif hook: re-export the sealing trait for probe streams (cfg-guarded)",
]
