"""Property registry: which solver queries decide which property, per tier."""
from __future__ import annotations

import json
import os
import re
import shutil
from dataclasses import dataclass, field
from pathlib import Path

import runner
import native
from runner import Job

REPLAY_DIR = runner.EVIDENCE / "replay"


@dataclass
class Outcome:
    results: list = field(default_factory=list)
    violations: list = field(default_factory=list)
    inconclusive: list = field(default_factory=list)
    known_lines: list = field(default_factory=list)
    queries_ok: int = 0
    covers: int = 0
    extra_samples: list = field(default_factory=list)
    extra_nontrivial: int = 0
    extra_queries: int = 0
    extra_solver_s: float = 0.0
    traces_validated: int = 0


def J(name, tier="quick", **kw):
    j = Job(name=name, **kw)
    j.tier = tier
    return j


# ---------------------------------------------------------------------------------------
# job lists
# ---------------------------------------------------------------------------------------


STEP_CASES = [
    ("step_initial_state", "abstract(Parser::new()) == model's initial state"),
    ("step_ground", "state Ground, 1 stale parameter, 1 stale OSC field, all values symbolic, any byte"),
    ("step_escape", "state Escape, any byte"),
    ("step_escape_intermediate", "state EscapeIntermediate, 0..2 intermediates, any byte"),
    ("step_csi_entry", "state CsiEntry, any byte"),
    ("step_csi_param_0", "state CsiParam, no completed parameter, any pending value, any byte"),
    ("step_csi_param_2", "state CsiParam, 2 completed parameters with any ';'/':' structure, any byte"),
    ("step_csi_intermediate", "state CsiIntermediate, 2 parameters, 0..2 intermediates, any byte"),
    ("step_csi_ignore", "state CsiIgnore, any byte"),
    ("step_dcs_entry", "state DcsEntry, any byte"),
    ("step_dcs_param", "state DcsParam, 2 parameters, any byte"),
    ("step_dcs_intermediate", "state DcsIntermediate, any byte"),
    ("step_dcs_passthrough", "state DcsPassthrough, any byte"),
    ("step_dcs_ignore", "state DcsIgnore, any byte"),
    ("step_osc_0", "state OscString, payload <=5 bytes, no completed field, any byte"),
    ("step_osc_2", "state OscString, payload <=5 bytes, 2 completed fields, any byte"),
    ("step_sos", "state SosPmApcString, any byte"),
    ("step_utf8_0", "lead byte from Ground, then any byte"),
    ("step_utf8_1", "lead byte + 1 arbitrary byte from Ground, then any byte"),
    ("step_utf8_2", "lead byte + 2 arbitrary bytes from Ground, then any byte"),
]
STEP_LIMITS = [
    ("step_csi_param_31", "state CsiParam with 31 parameter values (limit - 1), any structure, any byte"),
    ("step_csi_param_32", "state CsiParam with 32 parameter values (at the limit), any byte"),
    ("step_csi_intermediate_32", "state CsiIntermediate with 32 parameter values, any byte"),
    ("step_dcs_param_31", "state DcsParam with 31 parameter values, any byte"),
    ("step_dcs_param_32", "state DcsParam with 32 parameter values, any byte"),
    ("step_osc_15", "state OscString with 15 completed fields, any byte"),
    ("step_osc_16", "state OscString with 16 completed fields (at the limit), any byte"),
    ("step_osc_16_extra", "state OscString with 16 fields and bytes after the last field, any byte"),
]


def jobs_c02(tier, seed):
    f = ["c02"]
    jobs = [
        J("c02::transition_table", features=f, timeout_s=300, bound="all 14 table-driven parser states x all 256 bytes (complete)"),
        J("c02::run_from_new_1", features=f, timeout_s=300, bound="every 1-byte stream from Parser::new()"),
        J("c02::run_from_new_2", features=f, timeout_s=900, bound="every 2-byte stream from Parser::new()"),
    ]
    for n, b in STEP_CASES:
        heavy = n.startswith("step_utf8")  # measured: 20-26 GB and 7-10 min each
        if heavy and tier == "quick":
            continue
        jobs.append(J(f"c02::{n}", features=f, timeout_s=3600 if heavy else 1800, mem_gb=45 if heavy else 20, expect_gb=30 if heavy else 7, all_covers=False, min_covers=1,
                      bound=("multi-step run from an arbitrary Ground state: " if heavy else "one step from an arbitrary valid parser state: ") + b))
    # the documented limits (31/32 parameter values, 15/16 OSC fields): 25+ GB each, thorough only
    lim = STEP_LIMITS if tier == "thorough" else []
    for n, b in lim:
        jobs.append(J(f"c02::{n}", features=f, timeout_s=3600, mem_gb=45, expect_gb=30, all_covers=False, min_covers=1,
                      bound="one step from an arbitrary valid parser state: " + b))
    if tier == "thorough":
        jobs.append(J("c02::osc_param_limit_run", features=f, timeout_s=2 * 3600, mem_gb=40, expect_gb=20, optional=True,
                      bound="from Parser::new(): ESC ] and 15 separators (concrete), 3 symbolic bytes, BEL (optional: did not finish in 15 min)"))
        jobs += [
            J("c02::run_from_new_3", features=f, timeout_s=3600, mem_gb=30, expect_gb=20, bound="every 3-byte stream from Parser::new()"),
            J("c02::run_from_new_4", features=f, timeout_s=2 * 3600, mem_gb=40, expect_gb=30, optional=True, bound="every 4-byte stream from Parser::new()"),
        ]
    return jobs


def jobs_c03(tier, seed):
    f = ["c03"]
    jobs = []
    ns = [2, 3] if tier == "quick" else [2, 3, 4, 5]
    # quick: one wave of 9 queries (the 900 s budget); the other n=3 variants are thorough
    quick3 = {"bytes": {1, 2}, "stream": {3}, "str": set()}
    for n in ns:
        for mask in range(2 ** (n - 1)):
            cuts = "".join("|" if (mask >> i) & 1 else "." for i in range(n - 1))
            to = {2: 900, 3: 1800, 4: 3600, 5: 3 * 3600}[n]
            mem = 12 if n < 3 else 20
            opt = n >= 5
            skip = lambda kind: tier == "quick" and n == 3 and mask not in quick3[kind]
            if not skip("bytes"):
                jobs.append(J(f"c03::bytes_n{n}_m{mask}", features=f, timeout_s=to, mem_gb=mem, optional=opt, all_covers=False, min_covers=1,
                              bound=f"StripBytes: every byte string of length {n}, partition '{cuts}' ('|' = cut) vs strip_bytes"))
            if n <= 4 and not skip("stream"):
                jobs.append(J(f"c03::stream_n{n}_m{mask}", features=f, timeout_s=to, mem_gb=mem, optional=n >= 4, all_covers=False, min_covers=1,
                              bound=f"StripStream::write_all per chunk: every byte string of length {n}, partition '{cuts}'"))
            if n <= 4 and not skip("str"):
                jobs.append(J(f"c03::str_n{n}_m{mask}", features=f, timeout_s=to, mem_gb=mem, optional=n >= 4, all_covers=False, min_covers=1,
                              bound=f"StripStr: every UTF-8 string of {n} bytes whose cuts '{cuts}' fall on character boundaries vs strip_str"))
    return jobs


def jobs_c13(tier, seed):
    f = ["c13"]
    names = [
        ("effects_set_laws", "two free effect sets (4096 x 4096), complete"),
        ("effects_iter_order", "every effect set, complete"),
        ("effects_debug_single_names", "each of the 12 effects and the empty set, byte-exact"),
        ("effects_debug_names_all12", "debug text of the set of all twelve effects (concrete set; fragment-level tokenisation)"),
        ("effects_debug_names_alternating", "debug text of the concrete set 0xA55"),
        ("effects_debug_names_two", "debug text of the concrete set {first, last}"),
        ("style_setters_getters", "free style x free colours, complete"),
        ("style_convenience_and_ops", "free style x free effect sets, complete"),
        ("style_eq_effects", "free style x free effect set, complete"),
        ("ansi_256_bijection", "all 16 colours / all 256 indices, complete"),
        ("bright_projection", "all 16 colours, complete"),
    ]
    jobs = [J(f"c13::{n}", features=f, timeout_s=1800, mem_gb=24, expect_gb=3, bound=b) for n, b in names]
    if tier == "thorough":
        jobs.append(J("c13::effects_debug_names", features=f, timeout_s=2 * 3600, mem_gb=50, expect_gb=45, optional=True, bound="debug text of every effect set (all 4096), complete; needs more than 24 GB"))
        jobs.append(J("c13::effects_debug_names_lo", features=f, timeout_s=3600, mem_gb=40, expect_gb=26, optional=True, bound="debug text of every set of the first six effects (23+ GB)"))
        jobs.append(J("c13::effects_debug_names_hi", features=f, timeout_s=3600, mem_gb=40, expect_gb=26, optional=True, bound="debug text of every set of the last six effects (23+ GB)"))
    return jobs


def jobs_c01(tier, seed):
    f = ["c01"]
    jobs = []
    if tier == "thorough":
        for n, w in [("apc", "APC"), ("pm", "PM"), ("sos", "SOS"), ("dcs", "DCS"), ("osc", "OSC")]:
            jobs.append(J(f"c01::str_in_{n}", features=f, timeout_s=3600, mem_gb=20, expect_gb=11, bound=f"strip_str: ESC, the {w} introducer, every 2-byte character (a slice of the 4-byte text query; 9 min / 10 GB)"))
    ns = [1, 2, 3] if tier == "quick" else [1, 2, 3, 4, 5]
    for n in ns:
        to = {1: 300, 2: 600, 3: 900, 4: 3600, 5: 3 * 3600}[n]
        opt = n >= 5
        mem = 12 if n < 4 else 24
        jobs.append(J(f"c01::bytes_oneshot_{n}", features=f, timeout_s=to, mem_gb=mem, optional=opt, bound=f"strip_bytes: every byte string of length {n}"))
        jobs.append(J(f"c01::bytes_incremental_{n}", features=f, timeout_s=to, mem_gb=mem, optional=opt, bound=f"StripBytes::strip_next: every byte string of length {n}"))
        if n <= 4:
            jobs.append(J(f"c01::stream_{n}", features=f, timeout_s=to, mem_gb=mem, optional=n >= 4, bound=f"StripStream::write_all over &mut dyn Write: every byte string of length {n}"))
            if n <= 2 or tier == "thorough":
                jobs.append(J(f"c01::str_oneshot_{n}", features=f, timeout_s=to, mem_gb=mem, bound=f"strip_str: every UTF-8 string of {n} bytes"))
                jobs.append(J(f"c01::str_incremental_{n}", features=f, timeout_s=to, mem_gb=mem, bound=f"StripStr::strip_next: every UTF-8 string of {n} bytes"))
    return jobs


def jobs_c04(tier, seed):
    """Kani's default checks (bounds, arithmetic overflow, unwrap/expect/unreachable panics,
    invalid enum values, pointer validity, debug assertions) ARE the property; the functional
    harnesses of the other properties are re-run with every default check switched on."""
    jobs = []

    def add(name, feats, bound, crate="core", stub=False, to=1800, mem=16, opt=False):
        j = J(name, crate=crate, features=feats, stubbing=stub, timeout_s=to, mem_gb=mem, optional=opt, bound=bound,
              all_covers=False, min_covers=1, replay="none" if stub else "playback")
        j.checks = "all"
        jobs.append(j)

    add("c02::transition_table", ["c02"], "parser: transmute-based unpack of every table entry (invalid enum values), all states x all bytes")
    add("c02::run_from_new_2", ["c02"], "parser: every 2-byte stream from new(), all default checks")
    for st in ["step_csi_param_2", "step_osc_2", "step_ground"]:
        add(f"c02::{st}", ["c02"], f"parser: one step from an arbitrary valid state ({st}), any byte: every unsafe block, MaybeUninit OSC slices, index arithmetic")
    add("c01::bytes_oneshot_2", ["c01"], "strip_bytes: every 2-byte string, all default checks")
    add("c01::bytes_oneshot_3", ["c01"], "strip_bytes: every 3-byte string", to=2400)
    add("c01::str_oneshot_2", ["c01"], "strip_str: every 2-byte UTF-8 string: returned pieces valid UTF-8 inside the input (from_utf8_unchecked under debug assertions)")
    add("c05::slot_fg", ["c05"], "DisplayBuffer (19-byte capacity) for every colour, all default checks")
    for sh in ["csi_k3_s0", "csi_k5_s0"]:
        add(f"c07::harness::{sh}", ["c07"], f"styled-run extractor csi_dispatch shape {sh}: expect(\"within 4-bit range\"), `as u8` truncations, every u16 value")
    add("c10::palette_scan_lowest_minimum", ["c10"], "Palette::find_match best_index panic path, any palette / table", stub=True)
    add("c10::direct_conversions", ["c10"], "lossy conversions: table indexing for every index and palette")
    add("c12::ls_codes_2", ["c12"], "LS_COLORS code interpreter on every 2-code list", stub=True)
    add("c12::ls_codes_3", ["c12"], "LS_COLORS code interpreter on every 3-code list (38/48/58 look-ahead)", stub=True)
    if tier == "thorough":
        add("c01::bytes_oneshot_4", ["c01"], "strip_bytes: every 4-byte string", to=2 * 3600, mem=24, opt=True)
        add("c01::str_oneshot_3", ["c01"], "strip_str: every 3-byte UTF-8 string", to=3600, mem=20)
        add("c01::str_in_apc", ["c01"], "strip_str: ESC _ and every 2-byte character: slicing inside a skipped string control", to=3600, mem=30, opt=True)
        add("c05::slot_underline", ["c05"], "DisplayBuffer via the underline slot (longest code), every colour")
        add("c02::step_dcs_passthrough", ["c02"], "parser step in DcsPassthrough")
        add("c02::step_escape_intermediate", ["c02"], "parser step in EscapeIntermediate")
        add("c07::harness::csi_k5_s15", ["c07"], "csi_dispatch shape 38:2:r:g:b")
        add("c02::run_from_new_3", ["c02"], "parser: every 3-byte stream from new()", to=3600, mem=24, opt=True)
        add("c02::step_csi_param_32", ["c02"], "parser step at the 32-parameter limit", to=3600, mem=24, opt=True)
        add("c02::step_osc_16", ["c02"], "parser step at the 16-field OSC limit", to=3600, mem=24, opt=True)
    return jobs


def jobs_c05(tier, seed):
    f = ["c05"]
    names = [
        ("slot_fg", "every colour (16+256+2^24) as foreground: interpreted, stripped; render() and write_to byte-equal"),
        ("slot_bg", "every colour as background, same checks"),
        ("slot_underline", "every colour as underline colour, same checks"),
        ("color_render_fg_bg", "every colour: Color/AnsiColor/Ansi256Color/RgbColor render_fg/render_bg byte-equal to the style's"),
        ("effects_single_0_3", "effects BOLD, DIMMED, ITALIC alone: interpreted, stripped; three paths byte-equal"),
        ("effects_single_3_6", "effects UNDERLINE, DOUBLE_UNDERLINE, CURLY_UNDERLINE alone, same checks"),
        ("effects_single_6_9", "effects DOTTED_UNDERLINE, DASHED_UNDERLINE, BLINK alone, same checks"),
        ("effects_single_9_12", "effects INVERT, HIDDEN, STRIKETHROUGH alone, same checks"),
        ("effects_structure", "every one of the 4096 effect sets: in-order concatenation of its members' renderings"),
        ("style_structure_display_fx", "a concrete effect set {BOLD, UNDERLINE, STRIKETHROUGH} x any colour of any kind in any subset of the three slots: Display is the in-order concatenation of exactly its parts' renderings"),
        ("style_structure_write_to_fx", "same for the io::Write path with effects {DIMMED, DOUBLE_UNDERLINE, HIDDEN}"),
        ("reset_forms", "every style x every prior terminal state: {:#}, render_reset, write_reset_to, Reset"),
        ("flags_width", "4 format strings x (2 effects + any colour fg + any 256-colour underline)"),
        ("flags_fill", "4 format strings, same shape"),
        ("flags_precision", "4 format strings, same shape"),
        ("flags_alternate", "4 format strings, same shape"),
        ("flags_alternate2", "4 format strings, same shape"),
        ("flags_misc", "4 format strings, same shape"),
        ("flags_plain_style", "plain style under 4 flag combinations"),
    ]
    jobs = [J(f"c05::{n}", features=f, timeout_s=1200, bound=b) for n, b in names]
    if tier == "thorough":
        for n in ["style_structure_display_k012", "style_structure_display_k120", "style_structure_write_to_k201", "style_structure_write_to_k012"]:
            jobs.append(J(f"c05::{n}", features=f, timeout_s=3600, mem_gb=20, bound="every effect set x optional colour per slot with the colour kind per slot fixed: in-order concatenation of exactly its parts' renderings"))
        for n in ["style_structure_display", "style_structure_write_to", "style_structure_render"]:
            jobs.append(J(f"c05::{n}", features=f, timeout_s=3600, mem_gb=20, bound="every style value, colour kinds symbolic as well: in-order concatenation of exactly its parts' renderings"))
        for n in ["full_interpret_ansi_rgb_256", "full_interpret_rgb_256_ansi", "full_interpret_256_ansi_rgb"]:
            jobs.append(J(f"c05::{n}", features=f, timeout_s=3600, mem_gb=20, optional=True, bound="fragmentation-independent interpretation of a whole style: 3-4 concrete effects, all three colours symbolic (kinds fixed)"))
    return jobs


def jobs_c08(tier, seed):
    f = ["c08"]
    vs = "vs a StripStream fed the same operation"
    sp = "vs the strip specification (one stream: write()'s short-write machinery costs ~10 GB per stream)"
    # (name, bound, expected GB, quick?)
    never = [
        ("never_write_all_2", f"AutoStream::never: one write_all() of 2 symbolic bytes {vs}", 6, True),
        ("new_never_write_all_1", f"AutoStream::new(.., Never): one write_all() of 1 symbolic byte {vs}", 6, True),
        ("never_state_carried_across_calls", f"AutoStream::never: write_all ending inside an escape sequence, then write_all of any byte, {vs}", 7, True),
        ("never_flush", "AutoStream::never: flush", 1, True),
        ("never_spec_write_1", f"AutoStream::never: one write() of 1 symbolic byte {sp}", 11, True),
        ("never_spec_write_vectored_0", f"AutoStream::never: one write_vectored() (empty slice, 1 symbolic byte) {sp}", 11, False),
        ("never_write_all_1", f"AutoStream::never: one write_all() of 1 symbolic byte {vs}", 6, False),
        ("new_never_write_all_2", f"AutoStream::new(.., Never): one write_all() of 2 symbolic bytes {vs}", 6, False),
        ("never_spec_write_2", f"AutoStream::never: one write() of 2 symbolic bytes {sp}", 11, False),
        ("never_spec_write_vectored_1", f"AutoStream::never: one write_vectored() (1 symbolic byte, 1 symbolic byte) {sp}", 11, False),
        ("new_never_spec_write_1", f"AutoStream::new(.., Never): one write() of 1 symbolic byte {sp}", 11, False),
    ]
    opt = [
        ("never_spec_write_fmt", f"AutoStream::never: one formatted write of two symbolic ASCII fragments {sp} (exceeds 14 GB)", 30),
        ("never_write_fmt", f"AutoStream::never: formatted write {vs}", 30),
        ("never_write_1", f"AutoStream::never: one write() of 1 symbolic byte {vs}", 30),
        ("never_dyn_writer", "AutoStream::never over &mut dyn Write: one byte (text or ESC); exceeds 20 min: CBMC resolves the inner dyn call against every Write impl", 30),
    ]
    rest = [
        ("always_ansi_two_ops", "AutoStream::always_ansi over &mut dyn Write: any two operations (kinds symbolic), bytes forwarded unchanged"),
        ("always_two_ops", "AutoStream::always (non-Windows): same"),
        ("new_always_ansi_two_ops", "AutoStream::new(.., AlwaysAnsi): same"),
        ("new_always_two_ops", "AutoStream::new(.., Always): same"),
    ]
    jobs = []
    for n, b, gb, quick in never:
        if quick or tier == "thorough":
            jobs.append(J(f"c08::{n}", features=f, timeout_s=1500, mem_gb=20, expect_gb=gb, bound=b))
    jobs += [J(f"c08::{n}", features=f, timeout_s=1200, mem_gb=12, expect_gb=2, bound=b) for n, b in rest]
    jobs.append(J("c08::vec_into_inner", features=f, timeout_s=1500, mem_gb=20, expect_gb=10, bound="owned Vec<u8>: into_inner returns all bytes delivered (1-byte write_all, both modes)"))
    if tier == "thorough":
        jobs += [J(f"c08::{n}", features=f, timeout_s=2 * 3600, mem_gb=40, expect_gb=gb, optional=True, bound=b) for n, b, gb in opt]
    return jobs


def jobs_c09(tier, seed):
    f = ["c09"]
    jobs = [
        J("c09::decision_stdout", features=f, stubbing=True, replay="none", timeout_s=900,
          bound="4 global choices x 6 variables each in {unset,'','0','1','dumb','xterm-256color','truecolor','24bit','true'} x stdout terminal yes/no (complete over that domain)"),
        J("c09::decision_non_terminal", features=f, stubbing=True, replay="none", timeout_s=900,
          bound="same environment domain x in-memory writer; AutoStream::auto(..).current_choice()"),
        J("c09::probes", features=f, stubbing=True, replay="none", timeout_s=900,
          bound="each anstyle_query probe against its published convention over the same value set"),
        J("c09::clap_flag_mapping", features=f + ["c09clap"], timeout_s=1800, min_covers=1,
          bound="the three flag values map one-to-one onto the global choice (concrete)"),
    ]
    return jobs


C07_QUICK = ["csi_k1_s0", "csi_k2_s0", "csi_k2_s1", "csi_k3_s0", "csi_k3_s1", "csi_k3_s2", "csi_k3_s3",
             "csi_k4_s0", "csi_k4_s1", "csi_k4_s2", "csi_k4_s3", "csi_k4_s4", "csi_k4_s5", "csi_k4_s6", "csi_k4_s7",
             "csi_k5_s0", "csi_k5_s15", "csi_k10_s0"]
C07_THOROUGH = ["csi_k5_s6", "csi_k5_s3", "csi_k5_s12", "csi_k5_s1", "csi_k6_s0", "csi_k6_s30", "csi_k6_s15",
                "csi_k6_s27", "csi_k6_s1", "csi_k7_s0", "csi_k8_s0", "csi_k10_s495", "csi_k11_s0"]


def jobs_c06(tier, seed):
    f = ["c06"]
    q = [
        ("write_s_all_utf8", "write(): 1 symbolic byte inside a 3-byte character; inner writer accepts everything"),
        ("write_s_short0_utf8", "write(): 1 symbolic byte inside a 3-byte character; inner writer accepts 0 bytes (short write)"),
        ("write_s_err0_utf8", "write(): same state; inner writer fails at its first call (Interrupted / WouldBlock / Other)"),
        ("write_s_err0_csi", "write(): 1 symbolic byte inside a CSI sequence; error at the first inner call"),
    ]
    q2 = [
        ("write_s_short0_ground", "write(): 1 symbolic byte from Ground; short write of 0"),
        ("write_s_short1_ground2", "write(): 2 symbolic bytes from Ground; inner writer accepts 1 byte"),
        ("write_s_err1_two_runs", "write(): text, C0 control, text (two printable runs, all symbolic); error at the second inner call"),
        ("write_s_short0_second_run", "write(): two printable runs; the second inner call accepts 0 bytes"),
    ]
    jobs = [J(f"c06::{n}", features=f, timeout_s=1800, mem_gb=24, expect_gb=6, all_covers=False, min_covers=1, bound=b + " -- concrete script, symbolic buffer and error kind") for n, b in q]
    qc = [
        ("write_c_err1_two_runs", "write(): concrete buffer 'a' BEL 'b' (two printable runs); error of symbolic kind at the second inner call"),
        ("write_c_short0_second_run", "write(): concrete buffer 'a' BEL 'b'; the second inner call accepts 0 bytes"),
    ]
    jobs += [J(f"c06::{n}", features=f, timeout_s=900, mem_gb=12, expect_gb=2, all_covers=False, min_covers=1, bound=b) for n, b in qc]
    jobs += [
        J("c06::write_all_2", features=f, timeout_s=1800, mem_gb=24, expect_gb=6, bound="one write_all() of a 2-byte buffer from any state reachable by a 2-byte prefix; error of any kind at any inner call"),
    ]
    if tier == "thorough":
        jobs.append(J("c06::write_fmt_2", features=f, timeout_s=3600, mem_gb=30, expect_gb=12, optional=True, bound="write_fmt of two 1-byte ASCII fragments; error at any inner call"))
        for n, b in q2:
            jobs.append(J(f"c06::{n}", features=f, timeout_s=2 * 3600, mem_gb=30, expect_gb=12, optional=True, all_covers=False, min_covers=1, bound=b + " -- concrete script, symbolic buffer and error kind"))
        desc = "one write() of {n} symbolic byte(s) from the state carried after the prefix {p}; SYMBOLIC script: accept sizes in {{0,1,2,3,all}} per call, one error (Interrupted/WouldBlock/Other) at any inner call or none"
        w1 = [("write_1_ground", "''"), ("write_1_escape", "ESC"), ("write_1_csi", "ESC ["), ("write_1_utf8_1", "E2"), ("write_1_utf8_2", "F0 9F")]
        w2 = [("write_2_ground", "''"), ("write_2_csi", "ESC ["), ("write_2_utf8_1", "E2")]
        for n, p in w1:
            jobs.append(J(f"c06::{n}", features=f, timeout_s=3600, mem_gb=24, expect_gb=8, all_covers=False, min_covers=1, bound=desc.format(n=1, p=p)))
        for n, p in w2:
            jobs.append(J(f"c06::{n}", features=f, timeout_s=3 * 3600, mem_gb=30, expect_gb=16, optional=True, all_covers=False, min_covers=1, bound=desc.format(n=2, p=p)))
        jobs.append(J("c06::write_vectored_2", features=f, timeout_s=2 * 3600, mem_gb=30, expect_gb=16, optional=True, bound="write_vectored of (<=1 byte, 2 bytes); any accept sizes"))
    return jobs


def jobs_c18(tier, seed):
    f = ["c18"]
    fs = ["c18", "scripted_runs"]
    W = dict(crate="wincon", all_covers=False, min_covers=1)
    jobs = [J("console::harness::cap_color_complete", crate="wincon", features=f, timeout_s=600, bound="cap_wincon_color: every colour (complete)")]
    # assume-guarantee half: the real write loops over a scripted extractor (runs are C07's subject)
    for k in ["other", "interrupted", "would_block"]:
        jobs.append(J(f"console::scripted::scripted_write_all_{k}", features=fs, timeout_s=1500, mem_gb=16, expect_gb=5, **W,
                      bound=f"write_all over 0-2 scripted runs ('ab','c') with SYMBOLIC styles (fg/bg/underline colour of any kind, effects); console script symbolic: each of <=4 calls accepts 0, 1 or all bytes, one error of kind {k} at any call"))
    for k in ["other", "interrupted"]:
        jobs.append(J(f"console::scripted::scripted_write_{k}", features=fs, timeout_s=900, mem_gb=12, expect_gb=2, **W,
                      bound=f"write() over the same scripted runs; any accept sizes, one error of kind {k} at any of the first 3 console calls"))
    if tier == "thorough":
        jobs.append(J("console::scripted::scripted_write_fmt", features=fs, timeout_s=2 * 3600, mem_gb=40, expect_gb=25, optional=True, **W,
                      bound="write_fmt of two fragments over one scripted run; error at either console call (optional: the formatter-error path allocates a boxed error and exhausts 12 GB)"))
        # end to end with the real extractor
        scripts = [("write_all_s_accept_all", "console accepts everything"), ("write_all_s_zero_second", "the second console call accepts 0 bytes (WriteZero)"),
                   ("write_all_s_fail_first", "the first console call fails (WouldBlock / Interrupted / Other)"), ("write_all_s_fail_second", "the second console call fails")]
        for n, what in scripts:
            jobs.append(J(f"console::harness::{n}", features=f, timeout_s=2 * 3600, mem_gb=20, expect_gb=8, optional=True, **W,
                          bound=f"END TO END (real extractor): write_all over 'A ESC[4em B' (colour digit and error kind symbolic) split after ESC into two calls; concrete console script: {what}"))
        for c in [0, 1, 2, 4, 6]:
            jobs.append(J(f"console::harness::write_all_cut_{c}", features=f, timeout_s=2 * 3600, mem_gb=30, expect_gb=12, optional=True, **W,
                          bound=f"END TO END: write_all over the same skeleton split after byte {c}; SYMBOLIC console script: <=4 calls, any accept sizes, one error at any call"))
        jobs.append(J("console::harness::write_reports_consumed_only_if_handed_over", features=f, timeout_s=2 * 3600, mem_gb=30, expect_gb=12, optional=True, **W,
                      bound="END TO END: write() over the same skeleton; any accept sizes, one error at any of the first 3 console calls"))
    return jobs


C20_CONFIGS = [
    ("default", ["fx_utf8"]),
    ("core", ["fx_core"]),
    ("core_utf8", ["fx_core", "fx_utf8"]),
    ("none", []),
]


# quick tier per configuration: (harness, measured GB).  Measured on this machine: in the
# fixed-buffer configurations (core*) the one-step shapes that concretise a parser need
# 14-20+ GB, in the Vec configurations the 1024-byte boundary run needs 12-18+ GB; the
# quick tier takes the affordable combination, the rest is thorough.
C20_QUICK = {
    "default": [("c02::run_from_new_2", 3), ("c02::step_csi_param_2", 7), ("c02::step_osc_2", 4)],
    "none": [("c02::run_from_new_2", 3), ("c02::step_ground", 6), ("c02::step_osc_2", 4)],
    "core": [("c02::step_osc_2", 8), ("c20::osc_boundary_1023", 8), ("c20::osc_boundary_1024", 8)],
    "core_utf8": [("c02::step_osc_2", 8)],
}


def jobs_c20(tier, seed):
    jobs = []

    def mk(cfg, feats, h, gb, optional=False):
        f = ["c20", "seven_bit"] + feats
        what = ("OSC payload at the fixed buffer's limit: two arbitrary 7-bit bytes, terminator, then a CSI sequence" if h.startswith("c20::")
                else f"7-bit input, same reference model as every other configuration: {h}")
        j = J(h, crate="parse", features=f, timeout_s=3600 if optional else 1500, mem_gb=45 if gb > 12 else 20, expect_gb=gb, optional=optional,
              all_covers=False, min_covers=1, bound=f"[{cfg}] {what}")
        j.label = f"{cfg}:{h}"
        return j

    for cfg, feats in C20_CONFIGS:
        quick = C20_QUICK[cfg]
        for h, gb in quick:
            jobs.append(mk(cfg, feats, h, gb))
        if tier == "thorough":
            done = {h for h, _ in quick}
            common = ["c02::run_from_new_2", "c02::step_ground", "c02::step_csi_param_2", "c02::step_osc_2", "c02::transition_table", "c02::step_escape", "c02::step_dcs_passthrough",
                      "c02::step_osc_0", "c02::step_csi_intermediate", "c02::step_dcs_param", "c02::step_sos", "c02::step_csi_entry",
                      "c20::osc_boundary_1022", "c20::osc_boundary_1023", "c20::osc_boundary_1024", "c20::osc_boundary_1023_cut", "c20::osc_boundary_1024_cut"]
            heavy = ["c02::run_from_new_3", "c02::step_osc_16", "c02::step_csi_param_32", "c02::step_osc_15"]
            for h in common:
                if h not in done:
                    jobs.append(mk(cfg, feats, h, 25, optional=h.startswith("c20::") and cfg != "core"))
            for h in heavy:
                jobs.append(mk(cfg, feats, h, 30, optional=True))
    return jobs


def jobs_c19(tier, seed):
    f = ["c19"]
    kinds = ["write", "write_all", "write_vectored", "write_fmt", "flush"]
    jobs = []
    for wrap, what in [("auto_never", "AutoStream::never"), ("auto_always_ansi", "AutoStream::always_ansi"), ("strip", "StripStream")]:
        for k in kinds:
            heavy = wrap != "auto_always_ansi" and k in ("write", "write_vectored")
            jobs.append(J(f"c19::lock_once_{wrap}_{k}", features=f, timeout_s=3600 if heavy else 1800, mem_gb=24 if heavy else 16,
                          bound=f"{what} over a lock-counting probe stream: one {k} call with a symbolic <=2-byte payload (write_fmt: two 1-byte fragments)"))
    jobs.append(J("c19::global_choice_register", features=f, timeout_s=600, bound="ColorChoice::write_global / global: any two writes (sequential)"))
    jobs.append(J("c19::std_streams_hand_out_std_locks", features=f, timeout_s=600, min_covers=1, bound="stdout / stderr: as_locked_write returns std's StdoutLock / StderrLock (concrete)"))
    return jobs


def jobs_c07(tier, seed):
    f = ["c07"]

    def shape(name):
        k, s = name[5:].split("_s")
        k, s = int(k), int(s)
        seps = "".join(":" if (s >> i) & 1 else ";" for i in range(k - 1))
        return f"single SGR sequence with {k} parameter values, separators '{seps}', every value a free u16, any prior style"

    names = list(C07_QUICK)
    if tier == "thorough":
        names += C07_THOROUGH
    else:
        # rotate two of the deeper shapes into the quick tier
        extra = C07_THOROUGH[seed % len(C07_THOROUGH)], C07_THOROUGH[(seed + 5) % len(C07_THOROUGH)]
        names += [e for e in extra if e not in names]
    # some shapes have no well-formed reading at all (e.g. four values joined by ':'): the
    # "style changed" witnesses are then unsatisfiable by design; one reached witness suffices
    jobs = [J(f"c07::harness::{n}", features=f, timeout_s=1200 if int(n[5:].split("_s")[0]) < 8 else 3600, mem_gb=12 if int(n[5:].split("_s")[0]) < 8 else 20,
              bound=shape(n), all_covers=False, min_covers=1) for n in names]
    jobs.append(J("c07::harness::combined_equals_separate_2", features=f, timeout_s=1200, bound="a;b vs a then b: all pairs of single-parameter codes (free u16 x free u16), any prior style"))
    jobs.append(J("c07::harness::non_sgr_changes_nothing", features=f, timeout_s=1200, bound="any final byte other than m, or ignore flag set; ESC/OSC/DCS callbacks; any prior style"))
    return jobs


def jobs_c10(tier, seed):
    f = ["c10"]
    return [
        J("c10::palette_scan_lowest_minimum", features=f, stubbing=True, replay="none", timeout_s=1800, mem_gb=16,
          bound="K2: Palette::find_match with the distance function replaced by an ARBITRARY table: any query colour, any palette of 16 tagged entries incl. duplicates, any table (every weak order of the candidates) -> lowest index of minimal distance"),
        J("c10::xterm_scan_lowest_minimum_4_levels" if tier == "quick" else "c10::xterm_scan_lowest_minimum", features=f, stubbing=True, replay="none", timeout_s=2 * 3600, mem_gb=24,
          bound="K2: find_xterm_match over the 240 fixed colours with an ARBITRARY distance table ("
                + ("at most 4 distinct values per table" if tier == "quick" else "any u8 per candidate")
                + "); every candidate checked against the reference xterm generator; all 240 examined; lowest index of minimal distance"),
        J("c10::direct_conversions", features=f, timeout_s=1200,
          bound="K3: identities, 16-colour <-> indices 0..=15, palette look-ups, xterm_to_rgb == reference cube/grey generator: any colour, any index, any palette (complete)"),
        J("c10::xterm_to_ansi_goes_through_rgb", features=f, stubbing=True, replay="none", timeout_s=1800, mem_gb=16,
          bound="K3: xterm_to_ansi(i >= 16) is the palette scan of the reference RGB value of i, any table"),
    ]


def post_c10(prop, tier, seed, out):
    """K1: the distance kernel, decided by SMT solvers on an encoding generated from MIR."""
    import importlib.util

    spec = importlib.util.spec_from_file_location("mir2smt", str(runner.VERIF / "mir2smt" / "mir2smt.py"))
    m = importlib.util.module_from_spec(spec)
    spec.loader.exec_module(m)
    work = runner.workdir(prop) / "k1"
    try:
        rep = m.main(str(work / "k1.json"), str(work), seed)
    except Exception as e:  # translator does not understand the MIR any more, build failure, ...
        out.inconclusive.append(f"K1 (MIR->SMT): {type(e).__name__}: {e}")
        return
    tv = rep["translator_validation"]
    if tv["mismatches"]:
        out.inconclusive.append(f"K1: the MIR->SMT encoding disagrees with the real function on concrete inputs: {tv['mismatches'][:2]}")
    for ob in rep["obligations"]:
        out.extra_queries += 1
        out.extra_solver_s += sum(v["seconds"] for v in ob["solvers"].values())
        out.extra_samples.append({"query": "K1/" + ob["id"], "what": ob["what"], "status": ob["status"],
                                  "solvers": {k: [v["verdict"], v["seconds"]] for k, v in ob["solvers"].items()},
                                  "bound": "all 2^48 pairs of RGB colours (no bound)", "witness": ob.get("witness")})
        if ob["status"] == "holds":
            out.queries_ok += 1
        elif ob["status"] == "violated":
            d = REPLAY_DIR / prop
            d.mkdir(parents=True, exist_ok=True)
            pth = d / f"k1_{ob['id']}.json"
            pth.write_text(json.dumps({"property": prop, "kind": "k1", "obligation": ob["id"], "what": ob["what"], "why": ob.get("why"), "witness": ob.get("witness")}, indent=1))
            runner.log(f"  K1 {ob['id']} violated on the real function: {ob.get('why')} witness={ob.get('witness')}")
            out.violations.append(str(pth))
        else:
            out.inconclusive.append(f"K1 {ob['id']}: {ob.get('why', ob['status'])}")
    out.extra_samples.append({"query": "K1/translator-validation", "pairs_through_real_function_and_encoding": tv["pairs"], "mismatches": len(tv["mismatches"])})
    out.extra_nontrivial += 2  # the encoding is exercised on all-corner and random pairs; both classes present
    runner.log(f"  K1: {sum(1 for o in rep['obligations'] if o['status'] == 'holds')}/{len(rep['obligations'])} obligations hold, "
               f"{tv['pairs']} concrete pairs validated, {rep['wall_s']}s")


def jobs_c12(tier, seed):
    f = ["c12"]
    ks = [1, 2, 3, 4] if tier == "quick" else [1, 2, 3, 4, 5, 6]
    jobs = [J("c12::ls_no_style", features=f, timeout_s=600, bound='"" / "0" / "00" (concrete)', min_covers=1)]
    for k in ks:
        to = {1: 600, 2: 900, 3: 1200, 4: 2400, 5: 2 * 3600, 6: 3 * 3600}[k]
        jobs.append(J(f"c12::ls_codes_{k}", features=f, stubbing=True, timeout_s=to, mem_gb=16 if k < 5 else 24, optional=k >= 6, replay="none",
                      bound=f"every list of {k} codes (256^{k} lists), every field a number"))
    rej = [(2, 1), (3, 2)] + ([(3, 1), (4, 3)] if tier == "thorough" else [])
    for k, at in rej:
        jobs.append(J(f"c12::ls_reject_{k}_at_{at}", features=f, stubbing=True, timeout_s=1200, mem_gb=16, replay="none",
                      bound=f"every list of {k} fields in which field {at} fails to parse (any other codes) -> rejected"))
    for t, what in [("x", "'x'"), ("256", "'256'"), ("space", "'1; 2'"), ("minus", "'-1'")]:
        jobs.append(J(f"c12::ls_reject_text_{t}", features=f, timeout_s=900, min_covers=1,
                      bound=f"the malformed text {what} through the real decimal parser (no stub) -> rejected"))
    return jobs


def jobs_c17(tier, seed):
    f = ["c17"]
    jobs = []
    shapes = [("fg_bg", 4, "both colours"), ("fg_only", 3, "foreground only"), ("bg_only", 3, "background only"), ("none", 1, "no colour")]
    for sh, ncalls, what in shapes:
        if sh == "none" or tier == "thorough":
            jobs.append(J(f"c17::colored_{sh}_ok", features=f, timeout_s=1800, all_covers=False, min_covers=1,
                          bound=f"{what} (all 16 values each), data <=3 bytes (length symbolic), any accepted count, no failure"))
        if sh != "none":
            jobs.append(J(f"c17::colored_{sh}_ok2", features=f, timeout_s=1200, all_covers=False, min_covers=1,
                          bound=f"{what} (all 16 values each), 2 symbolic data bytes, any accepted count (0, 1, all), no failure"))
        for k in range(ncalls):
            if sh == "none" and k > 0:
                continue
            jobs.append(J(f"c17::colored_{sh}_fail{k}", features=f, timeout_s=1200, all_covers=False, min_covers=1,
                          bound=f"{what}, data <=3 bytes, inner write #{k} fails with Interrupted / WouldBlock / Other"))
    jobs.append(J("c17::colored_vec", features=f, timeout_s=1200, bound="Vec<u8> writer: 17x17 colour pairs x 1 data byte: accepts everything, codes first, data unchanged, reset last", mem_gb=20, expect_gb=6))
    return jobs


def pre_c16(prop, tier, seed, out):
    """Oracle validation (native, not a solver query): the reference tables are rendered with
    the target libraries themselves and read back with the SGR model."""
    import shutil
    import subprocess
    import time

    src = runner.CRATES["adapters"]
    dst = runner.workdir(prop) / "crate-adapters-native"
    if dst.exists():
        shutil.rmtree(dst)
    dst.parent.mkdir(parents=True, exist_ok=True)
    shutil.copytree(src, dst, ignore=shutil.ignore_patterns("target", "Cargo.lock"))
    runner.retarget(dst)
    if (runner.REPO / "Cargo.lock").exists():
        shutil.copy(runner.REPO / "Cargo.lock", dst / "Cargo.lock")
    env = dict(runner.BASE_ENV)
    # the libraries must be allowed to colour: no NO_COLOR / CLICOLOR in their environment
    for k in ("NO_COLOR", "CLICOLOR", "CLICOLOR_FORCE", "TERM"):
        env.pop(k, None)
    env["TERM"] = "xterm-256color"
    env["CARGO_TARGET_DIR"] = str(runner.WORK / "adapters-native")
    t0 = time.time()
    r = subprocess.run(["cargo", "test", "--offline", "--test", "render"], cwd=dst, env=env, capture_output=True, text=True, timeout=1800)
    ok = r.returncode == 0 and "test result: ok" in r.stdout
    out.extra_samples.append({"query": "reference-table validation (native)", "what": "each reference value rendered by ansi_term / crossterm / owo-colors / termcolor / yansi and interpreted by vmodels::sgr",
                              "status": "ok" if ok else "failed", "wall_s": round(time.time() - t0, 1)})
    if not ok:
        out.inconclusive.append("reference tables disagree with the target libraries' own rendering (oracle problem): " + (r.stdout + r.stderr)[-600:])
    else:
        runner.log("  reference tables confirmed by the target libraries' own rendering")


def jobs_c16(tier, seed):
    f = ["c16"]
    names = [
        ("ansi_term", "every anstyle::Style value -> ansi_term::Style fields"),
        ("crossterm", "every style -> crossterm ContentStyle colours (fg, bg, underline) and attribute set"),
        ("owo_colors", "every style -> owo_colors::Style (PartialEq against the reference value) and DynColors"),
        ("termcolor", "every style -> termcolor::ColorSpec getters"),
        ("yansi", "every style -> yansi::Style colours and attribute set"),
        ("syntect", "every syntect Style (RGBA x RGBA x font bits) -> anstyle::Style"),
    ]
    return [J(f"c16::{n}", crate="adapters", features=f, timeout_s=900, bound=b + " (complete over the value space)") for n, b in names]


REGISTRY = {
    "C16": {
        "jobs": jobs_c16,
        "pre": pre_c16,
        "level": "proof",
        "functions": [
            "anstyle_ansi_term::to_ansi_term", "anstyle_crossterm::to_crossterm",
            "anstyle_owo_colors::{to_owo_style,to_owo_colors}", "anstyle_termcolor::{to_termcolor_spec,to_termcolor_color}",
            "anstyle_yansi::{to_yansi_style,to_yansi_color}", "anstyle_syntect::{to_anstyle,to_anstyle_color,to_anstyle_effects}",
        ],
        "bounds": {"quick": "complete over anstyle::Style (2^12 effect sets x (none|16|256|2^24)^3 colours) per adapter; no bound", "thorough": "same"},
        "outside": "the third-party libraries' own rendering (confirmed natively for the reference tables by harness/adapters/tests/render.rs, not by the solver)",
        "trusted": ["Kani 0.68 MIR->goto", "CBMC 6.11 + CaDiCaL", "reference tables harness/adapters/src/reference.rs (each library's documented meaning of its variants)"],
        "assumptions": ["the target value 'denotes the same SGR attribute' as read from each library's documentation; tables cross-checked natively by rendering with the library and interpreting with vmodels::sgr"],
    },
    "C08": {
        "jobs": jobs_c08,
        "level": "model_checking",
        "functions": ["anstream::AutoStream::{new, never, always, always_ansi, into_inner, current_choice} and its io::Write impl over &mut dyn Write and Vec<u8>", "anstream::StripStream (oracle for Never)"],
        "bounds": {"quick": "pass-through: every sequence of 2 write-family operations (kind symbolic among write/write_all/write_vectored/write_fmt/flush), payloads <=2 bytes; Never (concrete in-memory raw stream via the Sealed hook): write_all of 1-2 symbolic bytes and a two-call sequence cut inside an escape sequence against a StripStream fed the same operations; write() of 1 symbolic byte against the strip specification; flush; owned Vec<u8> into_inner", "thorough": "adds Never write_vectored, the other payload lengths / constructors for write and write_all, and (optional, >14 GB or >20 min each) write_fmt, write() against a second stream, Never over &mut dyn Write"},
        "outside": "longer operation sequences and payloads; files and boxed writers (same generic code); ColorChoice::Auto is C09; Windows arms",
        "assumptions": ["Never is compared with a StripStream fed the same operations (C01/C06 tie the strip stream to the model)"],
    },
    "C09": {
        "jobs": jobs_c09,
        "custom_replay": native.replay_c09,
        "level": "proof",
        "functions": ["anstream::auto::choice via AutoStream::choice / AutoStream::auto", "anstyle_query::{clicolor,clicolor_force,no_color,term_supports_color,term_supports_ansi_color,truecolor,is_ci,non_empty}", "colorchoice::ColorChoice::{global,write_global}, AtomicChoice", "colorchoice_clap::Color::{as_choice,write_global}", "anstream::stream::IsTerminal for Stdout / Vec<u8>"],
        "bounds": {"quick": "complete over the configuration domain: 4 global choices x 9^6 variable assignments x {terminal, not a terminal}", "thorough": "same"},
        "outside": "variable values other than the nine listed strings; stderr and file streams (same code path through IsTerminal); Windows arms",
        "trusted": ["Kani 0.68 stubbing (-Z stubbing)", "CBMC 6.11 + CaDiCaL", "OsString/OsStr comparison as compiled by Kani"],
        "assumptions": ["STUB: std::env::var_os returns the value selected by a free selector per variable", "STUB: <Stdout as is_terminal_polyfill::IsTerminal>::is_terminal returns a free bool"],
    },
    "C06": {
        "jobs": jobs_c06,
        "level": "model_checking",
        "functions": ["anstream::strip::{write, write_all, write_fmt, offset_to} behind StripStream::<&mut dyn Write>::{write, write_vectored, write_all, write_fmt}", "anstream::fmt::Adapter::{write_fmt, write_str}", "anstream::adapter::StripBytes::strip_next"],
        "bounds": {"quick": "write(): 4 concrete inner-writer scripts (accept all / short write of 0 / error at the first inner call) x 1 symbolic byte x symbolic error kind, from carried states Ground, CsiEntry and inside a character; two concrete two-run buffers with an error / short write at the second inner call; write_all: 2 bytes from any state reachable by a 2-byte prefix, error at any inner call", "thorough": "write() of 2 symbolic bytes with a short write of 1; write_fmt of two fragments (optional); write() over two printable runs with an error / short write at the second inner call (optional: the replay after a short write makes this the most expensive query of the repository); fully symbolic scripts (accept sizes {0,1,2,3,all}, one error anywhere) for 1 byte from 5 carried states and 2 bytes from 3 (optional); write_vectored (optional)"},
        "outside": "longer buffers within one call; more than one injected error per call; the protocol over several calls follows by induction from the lemma's state clause (not unrolled)",
        "assumptions": ["the reference for 'stripped form' is an independent copy of StripBytes run on the consumed prefix (C01 ties StripBytes to the model)", "hook StripStream::verif_state observes the carried state", "inputs of the recorded C01 finding class (control byte inside broken UTF-8) are excluded while that finding is open"],
    },
    "C18": {
        "jobs": jobs_c18,
        "level": "model_checking",
        "functions": ["anstream/src/wincon.rs include!d from the working tree: write, write_all, write_fmt, cap_wincon_color, impl Write for WinconStream<S> (compiled, not driven)", "anstream::adapter::WinconBytes::extract_next (parser + styled-run capture)", "anstream/src/fmt.rs Adapter"],
        "bounds": {"quick": "colour capping complete; assume-guarantee split: write_all and write() of the real file over a SCRIPTED extractor yielding 0-2 runs ('ab','c') with fully symbolic styles, console scripts symbolic (<=4 calls accepting 0/1/all bytes, one error at any call, kinds Other / Interrupted / WouldBlock one query each)", "thorough": "adds write_fmt over the scripted extractor and the END-TO-END queries with the real extractor over a 7-byte skeleton (4 concrete console scripts, 5 split positions with symbolic scripts, the write() contract); all optional: each needs 20 min to hours"},
        "outside": "quick: what the real extractor yields for an input (that is C07, decided there on the same working tree); more than two runs or runs longer than 2 bytes; more than one console error per call",
        "assumptions": ["quick tier: crate::adapter::WinconBytes is replaced by a scripted stand-in (harness/wincon/src/lib.rs, feature scripted_runs) that yields harness-chosen (Style, String) runs; the stream's code is otherwise the real file", "stand-ins for crate::stream::{AsLockedWrite,IsTerminal} (harness/wincon/src/lib.rs) mirror the Windows bounds; crate::adapter and crate::fmt are the real code"],
    },
    "C19": {
        "jobs": jobs_c19,
        "level": "other",
        "level_text": "Sequential reduction only: the solver shows, for every input within the bound, that each write-family call on AutoStream / StripStream acquires the stream's lock exactly once and performs all inner writes while holding it, and that the global choice reads back the last write. Thread schedules are not explored (Kani has no concurrency support); contiguity for every schedule follows only under the stated assumptions about std's stdout/stderr lock. If that is judged not to decide the property, C19 belongs under not_applicable.",
        "explanation": "Lock-discipline lemma decided by bounded model checking of the real code with a lock-counting probe stream (hook: sealed-trait re-export). NOT a schedule exploration: the property's quantifier over schedules is discharged by assumption (std's ReentrantLock around stdout/stderr is mutual exclusion; SeqCst atomics are linearizable; each print macro expands to one write_fmt on a fresh handle).",
        "functions": ["anstream::AutoStream::<S>::{write,write_all,write_vectored,write_fmt,flush} (PassThrough and Strip arms)", "anstream::StripStream::<S>::{write,write_all,write_vectored,write_fmt,flush}", "anstream::stream::AsLockedWrite (probe implementation)", "colorchoice::{ColorChoice::global, write_global, AtomicChoice}"],
        "bounds": {"quick": "one call of any kind with a symbolic <=2-byte payload (write_fmt: two 1-byte fragments) per stream wrapper; two sequential writes of the global choice", "thorough": "same"},
        "outside": "all thread schedules (assumed, not explored); the print macros' expansion (read, not encoded); real stdout/stderr",
        "assumptions": ["std::io::Stdout/Stderr::lock is a mutual-exclusion (reentrant) lock", "SeqCst atomic load/store is linearizable", "each print/println/eprint macro call expands to one write_fmt call"],
    },
    "C20": {
        "jobs": jobs_c20,
        "level": "model_checking",
        "functions": ["anstyle_parse::Parser::advance and everything below it, built four times: features {utf8} (default), {core}, {core,utf8}, {} ", "ArrayVec-backed osc_raw (core) incl. the is_full early return", "AsciiParser::add (unreachable! shown unreachable on 7-bit input)"],
        "bounds": {"quick": "10 queries, the affordable combination per configuration (all against the same reference model): default and no-default-features: lock-step runs of <=2 arbitrary 7-bit bytes from Parser::new() and one-step refinement from arbitrary states CsiParam or Ground and OscString; core: one-step refinement from OscString and the OSC payload at lengths 1023 and 1024 (concrete filler) followed by two arbitrary 7-bit bytes, BEL and a CSI sequence; core+utf8: one-step refinement from OscString", "thorough": "every harness in every configuration (the one-step shapes in the fixed-buffer configurations need 14-20+ GB each, the boundary run in the Vec configurations 12-18+ GB), more states, runs of 3 bytes, the 32-parameter and 16-field limits, boundary lengths 1022..1024 with and without a completed field"},
        "outside": "OSC payloads of 1000..1100 bytes fed byte by byte from new() (the step lemma at the boundary lengths stands in for them); payload content other than the filler byte at the boundary (capacity logic does not read it)",
        "assumptions": ["equality across configurations follows by transitivity through the shared reference model vmodels::vt (fixed-buffer variant: payload truncated at 1024 bytes, separators arriving while full dropped)"],
    },
    "C07": {
        "jobs": jobs_c07,
        "level": "model_checking",
        "functions": ["anstream::adapter::wincon::WinconCapture::{csi_dispatch,esc_dispatch,osc_dispatch,hook,put,unhook} (source file include!d from the working tree)", "anstream::adapter::wincon::to_ansi_color", "anstyle_parse::Params::iter"],
        "bounds": {"quick": "every single SGR sequence of <=4 parameter values in every ';'/':' shape (15 shapes) plus the 5-value ';' and ':' shapes and the 10-value ';' shape (two RGB colours), every value a free u16, from every prior style; combined-vs-separate for all code pairs", "thorough": "31 shapes up to 11 values (all extended-colour forms next to other attributes, two RGB colours in one sequence)"},
        "outside": "sequences with more parameter values than the shapes listed; codes the property is silent about (5, 6, 22-29, 59: no assertion); extended colours with missing / out-of-range operands (ill-formed: no assertion); an underline code applied while a different underline kind is in effect (the flag view of the style type and the one-kind terminal view disagree about the result: no assertion); run emission across calls is covered by the run harnesses",
        "assumptions": ["reference interpreter vmodels::sgr with dialect EXTRACT", "parameter lists are built through the verification hook Params::verif_from_parts"],
    },
    "C10": {
        "jobs": jobs_c10,
        "post": post_c10,
        "custom_replay": native.replay_c10,
        "level": "proof",
        "functions": ["anstyle_lossy::distance (MIR -> SMT-LIB, integers with explicit wrapping)", "anstyle_lossy::palette::Palette::{find_match,get,index,rgb_from_ansi,rgb_from_index}", "anstyle_lossy::{find_xterm_match,rgb_to_xterm,rgb_to_ansi,xterm_to_ansi,xterm_to_rgb,ansi_to_rgb,color_to_rgb,color_to_xterm,color_to_ansi}", "XTERM_COLORS table", "anstyle::RgbColor::{r,g,b} (read off the anstyle crate's MIR)"],
        "bounds": {"quick": "K1 over all 2^48 colour pairs (no bound); K2 over every query colour, every (tagged) 16-entry palette and every distance table; the 240-candidate scan over every table with <=4 distinct values; K3 over all colours/indices/palettes", "thorough": "the 240-candidate scan over every u8 table (no bound left)"},
        "outside": "K2 abstracts the metric to an arbitrary table, so it covers every metric; the composition K1+K2 => nearest-by-red-mean is an argument on paper (stated in DESIGN.md), not a solver query",
        "trusted": ["rustc nightly MIR printer", "mir2smt translator (validated on 1000 concrete pairs per run against the real function)", "z3 4.8.12 / cvc5 1.0 / z3 5.1.0", "Kani 0.68 stubbing", "CBMC 6.11 + CaDiCaL", "reference xterm generator vmodels::xterm"],
        "assumptions": ["STUB: anstyle_lossy::distance replaced by a table lookup that also asserts its first argument is the query colour and its second a legitimate candidate", "find_match/find_xterm_match use the palette only through distance(color, candidate) -- enforced by the stub's argument checks and call count"],
    },
    "C12": {
        "jobs": jobs_c12,
        "custom_replay": native.replay_c12,
        "level": "model_checking",
        "functions": ["anstyle_ls::parse (split, Option-collect into VecDeque, queue-driven code interpreter with 38/48/58 look-ahead)", "std VecDeque / str::split as compiled by Kani"],
        "bounds": {"quick": "every list of <=4 codes, each code any value 0..=255; lists of <=2 fields with any single field rejected by number parsing", "thorough": "lists of <=6 codes (6 optional), rejection with <=3 fields"},
        "outside": "lists longer than the bound; the decimal string layer itself (signs, spaces, leading zeros, non-ASCII, >255): std's u8::from_str is stubbed; 21 and 38/48/58 with missing operands (the property does not fix them)",
        "assumptions": ["STUB: <u8 as core::str::FromStr>::from_str returns the k-th symbolic code or std's ParseIntError; std's str::split(';') and u8::from_str are assumed correct"],
    },
    "C17": {
        "jobs": jobs_c17,
        "level": "model_checking",
        "functions": ["anstyle_wincon::ansi::write_colored", "<dyn std::io::Write as anstyle_wincon::WinconStream>::write_colored", "<Vec<u8> as WinconStream>::write_colored", "anstyle::AnsiColor::{render_fg,render_bg}", "anstyle::Reset::render", "std::io::Write::write_fmt (default) as compiled by Kani"],
        "bounds": {"quick": "17x17 colour pairs; no failure: 2 symbolic data bytes, any accepted prefix (0-3 bytes without colours); failure of any kind {Interrupted,WouldBlock,Other} at each of the <=4 inner writes with data <=3 bytes (symbolic length)", "thorough": "no-failure queries with symbolic data length <=3 as well"},
        "outside": "data longer than 3 bytes; File/stdio writers (same generic function)",
        "assumptions": ["scripted writer overrides write_all (no retry loop), errors are bare ErrorKinds"],
    },
    "C01": {
        "jobs": jobs_c01,
        "level": "model_checking",
        "functions": [
            "anstream::adapter::{strip_bytes, StrippedBytes::next, StripBytes::strip_next, strip_str, StrippedStr::next, StripStr::strip_next}",
            "anstream::adapter::strip::{next_bytes, next_str, is_printable_bytes, is_utf8_continuation, from_utf8_unchecked, Utf8Parser::add}",
            "anstream::StripStream::<&mut dyn Write>::write_all (strip.rs write_all)",
            "anstyle_parse::state::state_change + STATE_CHANGES table",
            "utf8parse::Parser::advance",
        ],
        "bounds": {
            "quick": "every byte string of length <=3 (all 256 values per position) through strip_bytes, StripBytes and StripStream; every UTF-8 string of <=2 bytes through strip_str and StripStr",
            "thorough": "byte strings of length <=5 (length 5 optional), streams and UTF-8 strings <=4 bytes",
        },
        "outside": "inputs longer than the bound (the several-KiB generated streams of the property text); AutoStream::never is covered by C08",
        "assumptions": [
            "visible text is defined by vmodels::strip over the independent VT model",
            "for ill-formed UTF-8 the bytes of the printed U+FFFD are visible text, except a control byte that terminated the broken sequence",
        ],
    },
    "C03": {
        "jobs": jobs_c03,
        "level": "model_checking",
        "functions": [
            "anstream::adapter::{StripBytes::strip_next, StripStr::strip_next, strip_bytes, strip_str} (next_bytes, next_str)",
            "anstream::StripStream::<&mut dyn Write>::write_all per chunk",
            "anstyle_parse::state::state_change, utf8parse::Parser::advance",
        ],
        "bounds": {
            "quick": "every byte string of length 2 x both partitions for byte adapters, strip stream and text adapters (cuts at character boundaries); every byte string of length 3 for the partitions a|bc and ab|c (byte adapter) and a|b|c (strip stream) -- one query per (adapter, partition), 9 queries",
            "thorough": "all partitions of lengths <=3 for all three adapters, lengths <=5 (bytes; 5 optional) and <=4 (text, stream)",
        },
        "outside": "longer inputs; the styled-run extractor's chunking is covered under C07's run harness",
        "assumptions": ["the chunked result is compared with the one-shot result of the same build (and C01 ties the one-shot result to the model)"],
    },
    "C04": {
        "jobs": jobs_c04,
        "level": "model_checking",
        "functions": ["anstyle_parse::Parser::advance (all unsafe blocks: unpack transmute, MaybeUninit OSC slices)", "anstream::adapter::{strip_bytes, strip_str} incl. from_utf8_unchecked with debug assertions", "anstyle::color::DisplayBuffer", "anstream::adapter::wincon::WinconCapture::csi_dispatch", "anstyle_lossy::palette::Palette::find_match, xterm_to_rgb", "anstyle_ls::parse (code interpreter)"],
        "bounds": {"quick": "as the underlying harnesses (parser: one step from any valid state + 2-byte runs; strip: <=3 bytes; colours: all; csi shapes <=5 values; ls lists <=3 codes) with ALL of Kani's default checks on", "thorough": "plus 4-byte strip inputs, 3-byte parser runs, the 32-parameter and 16-field limits"},
        "outside": "anstyle_git::parse (byte-offset hex slicing), the SVG and roff converters and the string layer of anstyle_ls::parse: std string code CBMC does not get through (see C11/C14/C15); release-profile behaviour is addressed only as far as the same source is checked with debug-assertion semantics",
        "assumptions": ["Kani's default checks model Rust's panics, arithmetic overflow (as in a debug build), out-of-bounds and invalid-value UB", "inputs of the recorded C01 finding class are excluded from the strip harnesses (that finding is about output content, not memory safety)"],
    },
    "C05": {
        "jobs": jobs_c05,
        "level": "model_checking",
        "functions": [
            "anstyle::Style::{Display::fmt,fmt_to,render,write_to,render_reset,write_reset_to}",
            "anstyle::Effects::{render,write_to}, EffectsDisplay, EffectIndexIter",
            "anstyle::Color/AnsiColor/Ansi256Color/RgbColor::{render_fg,render_bg,render_underline,write_*_to}",
            "anstyle::color::DisplayBuffer::{write_str,write_code,as_str}",
            "anstyle::Reset",
            "core::fmt::{write, Formatter::pad, write_str} as compiled by Kani",
        ],
        "bounds": {
            "quick": "round trip and purity: every colour in every slot, every effect set, whole styles with the colour kind per slot fixed per query (2 kind assignments; 4 in thorough) and everything else symbolic; byte equality and the 24-entry flag grid: styles of the shape one effect + one colour (all values)",
            "thorough": "same",
        },
        "outside": "byte-level equality of Display vs write_to and of flagged vs unflagged output for styles with several effects/colours at once (their interpretation is covered); format strings outside the fixed grid",
        "assumptions": [
            "reference SGR interpreter vmodels::sgr (ECMA-48/xterm; underline kinds read as independent flags, as the style type represents them)",
            "leading zeros in a parameter denote the same value",
        ],
    },
    "C02": {
        "jobs": jobs_c02,
        "level": "model_checking",
        "functions": [
            "anstyle_parse::state::state_change",
            "anstyle_parse::state::definitions::unpack",
            "anstyle_parse::Parser::advance / perform_state_change / perform_action / osc_dispatch / process_utf8",
            "anstyle_parse::Params::{push,extend,is_full,clear,iter}",
            "utf8parse::Parser::advance",
        ],
        "bounds": {
            "quick": "transition function complete (14 states x 256 bytes); one-step refinement from an arbitrary valid state in 17 shapes (every table-driven state); lock-step runs from Parser::new() of <=2 bytes over all 256 values (these cover a character's lead byte followed by any byte)",
            "thorough": "adds the 3 multi-byte-character shapes from an arbitrary Ground state and the 8 limit shapes (31/32 parameter values, 15/16 OSC fields) -- 20-26 GB each; runs of <=4 bytes (4 optional)",
        },
        "outside": "streams longer than the run bound that are not covered by the one-step lemma's invariant; OSC payloads longer than the model buffer",
        "assumptions": [
            "reference model vmodels::vt (Williams' diagram + documented deviations) is the specification",
            "Kani's MIR->goto translation, CBMC 6.11 and CaDiCaL are sound",
        ],
    },
    "C13": {
        "jobs": jobs_c13,
        "level": "proof",
        "exhaustive": {"quick": False, "thorough": True},
        "functions": [
            "anstyle::Effects::{new,is_plain,contains,insert,remove,clear,set,iter,BitOr,Sub,BitOrAssign,SubAssign,Debug}",
            "anstyle::Style::{fg_color,bg_color,underline_color,effects,bold..strikethrough,get_*,is_plain,BitOr,Sub,PartialEq<Effects>}",
            "anstyle::AnsiColor::{bright,is_bright}",
            "anstyle::Ansi256Color::{into_ansi,from_ansi,index}",
        ],
        "bounds": {"quick": "complete over the finite value space (bit-vector reasoning) for every law except the Debug text of multi-member sets: every single-member set and the empty set byte-exact (symbolic choice), three concrete multi-member sets for separators and order", "thorough": "Debug text for all 4096 sets as well (optional: needs more than 24 GB)"},
        "outside": "quick: Debug text of the other multi-member sets (the symbolic query needs 23+ GB even for 6-effect windows); Debug is checked through core::fmt into a fixed sink",
        "trusted": ["Kani 0.68 MIR->goto", "CBMC 6.11 + CaDiCaL", "core::fmt as compiled by Kani"],
        "assumptions": ["Effects values are exactly those constructible through the public API (12 bits)"],
    },
}


# ---------------------------------------------------------------------------------------
# running
# ---------------------------------------------------------------------------------------


def save_replay(prop, job, test, extra=None) -> str:
    d = REPLAY_DIR / prop
    d.mkdir(parents=True, exist_ok=True)
    safe = re.sub(r"[^A-Za-z0-9_]+", "_", job.name)
    p = d / f"{safe}.json"
    p.write_text(
        json.dumps(
            {
                "property": prop,
                "harness": job.name,
                "crate": job.crate,
                "features": job.features,
                "stubbing": job.stubbing,
                "failed_check": test["description"],
                "test_fn": test["test_fn"],
                "values_in_any_order": runner.decode_values(test["code"]),
                "code": test["code"],
                "how_to_replay": f"./check {prop} --replay {p}",
                **(extra or {}),
            },
            indent=1,
        )
    )
    return str(p)


def confirm_failure(prop, crate_dir, job, idx, out: Outcome):
    """A harness failed: extract the solver's assignment, replay it on the natively compiled
    real code (dev profile, then release profile), report only what reproduces."""
    tests = runner.extract_playback(prop, crate_dir, job, idx)
    if not tests:
        out.inconclusive.append(f"{job.name}: FAILED but no concrete counterexample could be extracted")
        return
    reproduced_any = False
    for t in tests[:3]:
        rep, ran, txt = runner.native_playback(prop, job, t)
        rep_rel, ran_rel, _ = runner.native_playback(prop, job, t, profile_release=True) if rep else (False, False, "")
        out.traces_validated += 1
        if rep:
            path = save_replay(prop, job, t)
            runner.log(f"  counterexample for {job.name} reproduced natively (dev{' + release' if rep_rel else ''}): {t['description']}")
            out.violations.append(path)
            reproduced_any = True
            break
        else:
            runner.log(f"  counterexample for {job.name} did NOT reproduce natively (ran={ran}): {t['description']}\n{txt[-600:]}")
    if not reproduced_any:
        out.inconclusive.append(f"{job.name}: counterexample did not reproduce natively (encoding or harness problem)")


def run_property(prop, spec, tier, seed, kf, only=None) -> Outcome:
    out = Outcome()
    jobs = spec["jobs"](tier, seed)
    excl = [f["exclude_feature"] for f in kf if f.get("status") == "known" and f.get("exclude_feature")]
    for j in jobs:
        j.features = list(j.features) + [e for e in excl if e not in j.features]
    # witnesses of known findings (expected to fail while the defect is present) and of
    # repaired defects (ordinary regression queries)
    for f in kf:
        w = f.get("witness")
        if not w:
            continue
        jw = Job(
            name=w["harness"],
            crate=w.get("crate", "core"),
            features=list(w.get("features", [])),
            stubbing=w.get("stubbing", False),
            timeout_s=w.get("timeout_s", 600),
            bound="concrete witness input of finding " + f["id"],
            expect_fail=(f.get("status") == "known"),
            replay="none",
        )
        jw.finding = f
        jobs.append(jw)
    if only:
        jobs = [j for j in jobs if only in j.name]
    if "pre" in spec:
        spec["pre"](prop, tier, seed, out)
    results = runner.run_jobs(prop, jobs) if jobs else []
    out.results = results
    crate_dirs = {c: runner.workdir(prop) / f"crate-{c}" for c in {j.crate for j in jobs}}
    for idx, r in enumerate(results):
        j = r.job
        if j.expect_fail:
            f = j.finding
            if r.status == "fail":
                out.known_lines.append(f"KNOWN-FINDING: property={prop} {f['id']}: {f['summary']}")
            elif r.status == "ok":
                runner.log(f"  note: known finding {f['id']} no longer reproduces on this tree")
            else:
                out.inconclusive.append(f"{j.name}: witness query {r.status}")
            continue
        if r.status == "ok":
            out.queries_ok += 1
            out.covers += r.covers_sat
        elif r.status == "fail":
            if j.replay == "playback":
                confirm_failure(prop, crate_dirs[j.crate], j, idx, out)
            else:
                handler = spec.get("custom_replay")
                if handler:
                    tests = runner.extract_playback(prop, crate_dirs[j.crate], j, idx)
                    if not tests:
                        out.inconclusive.append(f"{j.name}: FAILED but no concrete counterexample could be extracted")
                    else:
                        try:
                            handler(prop, j, tests, out, save_replay)
                        except Exception as e:
                            out.inconclusive.append(f"{j.name}: FAILED; native confirmation crashed: {type(e).__name__}: {e}")
                else:
                    out.inconclusive.append(f"{j.name}: FAILED; no native replay available for this query")
        elif j.optional and r.status in ("timeout", "oom"):
            runner.log(f"  optional query {j.name} hit its cap ({r.status}); the claim shrinks accordingly")
        else:
            out.inconclusive.append(f"{j.name}: {r.status} (log: {r.log})")
    if "post" in spec:
        spec["post"](prop, tier, seed, out)
    return out


def replay(prop, path) -> int:
    data = json.loads(Path(path).read_text())
    job = Job(name=data["harness"], crate=data["crate"], features=data["features"], stubbing=data.get("stubbing", False))
    test = {"test_fn": data["test_fn"], "code": data["code"], "description": data["failed_check"]}
    rep, ran, txt = runner.native_playback(prop, job, test)
    print(txt[-3000:])
    if rep:
        print(f"REPRODUCED property={prop} harness={data['harness']} check={data['failed_check']}")
        return 1
    print(f"not reproduced (ran={ran})")
    return 0

HOOK_COMMITS = [
    "77aaa97 verif hook: build the OSC buffer of a constructed parser without a byte loop (edits the hook added in d0d3974 only)",
    "1b93b23 verif hook: declare cfg(kani) and cfg(rust_cli_anstyle_verif) to check-cfg",
    "d0d3974 verif hook: construct/observe parser and params state (cfg-guarded)",
    "568540d verif hook: observe StripStream's carried state (cfg-guarded)",
    "d5d86a6 verif hook: re-export the sealing trait for probe streams (cfg-guarded)",
]
