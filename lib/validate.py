#!/usr/bin/env python3
"""Validate MANIFEST.json and every evidence file against the schemas (tooling venv has jsonschema)."""
import json
import sys
from pathlib import Path

import jsonschema

V = Path(__file__).resolve().parent.parent
man = json.load(open(V / "MANIFEST.json"))
jsonschema.validate(man, json.load(open("/root/.vp/MANIFEST.schema.json")))
print("MANIFEST ok:", len(man["checks"]), "checks")
es = json.load(open("/root/.vp/EVIDENCE.schema.json"))
bad = 0
for c in man["checks"]:
    p = Path(c["evidence_file"])
    if not p.exists():
        print("missing evidence:", p)
        bad += 1
        continue
    ev = json.load(open(p))
    try:
        jsonschema.validate(ev, es)
    except jsonschema.ValidationError as e:
        print("INVALID", p, e.message[:200])
        bad += 1
        continue
    cov = ev["coverage"]
    print(f"{ev['property_id']}: level={ev['level']} tier={ev['tier']} queries={cov.get('queries_discharged')}/{cov.get('queries_total')} "
          f"nontrivial={cov.get('distinct_nontrivial')} wall={ev['wall_s']}s violations={ev.get('violations')} inconclusive={len(cov.get('inconclusive', []))}")
    if ev["level"] != c["level_claimed"]["category"]:
        print("  level mismatch with manifest", c["level_claimed"]["category"])
        bad += 1
sys.exit(1 if bad else 0)
