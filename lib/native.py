"""Native confirmation of counterexamples from harnesses that use Kani stubs (Kani's own
concrete playback does not apply stubs): the solver's values are fed to the REAL code
through small observer binaries (/verif/replay) and compared with the same oracle."""
import json
import os
import pty
import re
import shutil
import subprocess
from pathlib import Path

import runner

VALUES = {0: None, 1: "", 2: "0", 3: "1", 4: "dumb", 5: "xterm-256color", 6: "truecolor", 7: "24bit", 8: "true"}
VARS = ["NO_COLOR", "CLICOLOR_FORCE", "CLICOLOR", "TERM", "COLORTERM", "CI"]
CHOICES = ["auto", "always-ansi", "always", "never"]
NAMES = {"auto": "Auto", "always-ansi": "AlwaysAnsi", "always": "Always", "never": "Never"}


def build_helpers(prop):
    rp = runner.VERIF / "replay"
    target = runner.WORK / "replay-target"
    if str(runner.REPO) != "/repo":
        cp = runner.workdir(prop) / "replay-crate"
        if cp.exists():
            shutil.rmtree(cp)
        shutil.copytree(rp, cp, ignore=shutil.ignore_patterns("target", "Cargo.lock"))
        runner.retarget(cp)
        rp = cp
        target = runner.workdir(prop) / "replay-target"
    lock = runner.REPO / "Cargo.lock"
    if lock.exists():
        shutil.copy(lock, rp / "Cargo.lock")
    env = dict(runner.BASE_ENV)
    env["CARGO_TARGET_DIR"] = str(target)
    r = subprocess.run(["cargo", "build", "--offline", "--bins"], cwd=rp, env=env, capture_output=True, text=True, timeout=1200)
    if r.returncode != 0:
        raise RuntimeError("native helper build failed:\n" + r.stderr[-1500:])
    return target / "debug"


def expected_choice(g, sel, tty):
    if g != "auto":
        return NAMES[g]
    ne = lambda s: s >= 2
    if ne(sel[0]):
        return "Never"
    if ne(sel[1]):
        return "Always"
    if sel[2] == 2:
        return "Never"
    term_ok = sel[3] != 0 and sel[3] != 4
    cli_on = sel[2] != 0 and sel[2] != 2
    ci = sel[5] != 0
    return "Always" if tty and (term_ok or cli_on or ci) else "Never"


def run_c09(bindir, g, sel, tty):
    env = {k: v for k, v in os.environ.items() if k not in VARS}
    for name, s in zip(VARS, sel):
        if VALUES[s] is not None:
            env[name] = VALUES[s]
    cmd = [str(bindir / "c09_native"), g]
    if tty:
        master, slave = pty.openpty()
        p = subprocess.run(cmd, env=env, stdout=slave, stderr=subprocess.PIPE, text=True, timeout=60)
        os.close(slave)
        os.close(master)
    else:
        p = subprocess.run(cmd, env=env, stdout=subprocess.PIPE, stderr=subprocess.PIPE, text=True, timeout=60)
    return p.stderr.strip()


def replay_c09(prop, job, tests, out, save):
    """tests: playback tests of a failed c09 harness; values: sel[0..6], then tty (stdout
    harness only), then the global-choice selector."""
    bindir = build_helpers(prop)
    for t in tests[:3]:
        vals = [v[0] if v else 0 for v in runner.decode_values(t["code"])]
        if len(vals) < 6:
            continue
        sel = [min(v, 8) for v in vals[:6]]
        stdout_h = job.name.endswith("decision_stdout")
        tty = bool(vals[6]) if stdout_h and len(vals) > 6 else False
        gsel = vals[7] if stdout_h and len(vals) > 7 else (vals[6] if len(vals) > 6 else 0)
        g = CHOICES[gsel % 4] if not job.name.endswith("probes") else "auto"
        line = run_c09(bindir, g, sel, tty)
        got = dict(re.findall(r"(\w+)=(\S+)", line))
        problems = []
        if job.name.endswith("probes"):
            exp = {
                "clicolor": "None" if sel[2] == 0 else f"Some({'true' if sel[2] != 2 else 'false'})",
                "clicolor_force": str(sel[1] >= 2).lower(),
                "no_color": str(sel[0] >= 2).lower(),
                "term_supports_color": str(sel[3] != 0 and sel[3] != 4).lower(),
                "term_supports_ansi_color": str(sel[3] != 0 and sel[3] != 4).lower(),
                "truecolor": str(sel[4] in (6, 7)).lower(),
                "is_ci": str(sel[5] != 0).lower(),
            }
            problems = [f"{k}: real {got.get(k)} expected {v}" for k, v in exp.items() if got.get(k) != v]
        else:
            if tty and got.get("tty") != "true":
                out.inconclusive.append(f"{job.name}: could not give the native run a terminal")
                return
            key = "stdout" if stdout_h else "vec"
            exp = expected_choice(g, sel, tty if stdout_h else False)
            if got.get(key) != exp:
                problems = [f"decision: real {got.get(key)} expected {exp}"]
        if problems:
            env_desc = {n: VALUES[s] for n, s in zip(VARS, sel)}
            path = save(prop, job, t, extra={"environment": env_desc, "terminal": tty, "global_choice": g, "native_output": line, "disagreement": problems})
            runner.log(f"  counterexample for {job.name} reproduced natively: {problems} env={env_desc} tty={tty} global={g}")
            out.violations.append(path)
            return
    out.inconclusive.append(f"{job.name}: FAILED but the counterexample does not reproduce in a native process (stub or oracle problem)")


# ------------------------------------------------------------------------------------ C12
import importlib.util


def ls_reference(codes):
    """Plain-Python reading of the property's rules, for native confirmation only."""
    fg = bg = ul = None
    eff = set()
    i = 0
    n = len(codes)
    names = {1: "BOLD", 2: "DIMMED", 3: "ITALIC", 4: "UNDERLINE", 5: "BLINK", 6: "BLINK", 7: "INVERT", 8: "HIDDEN", 9: "STRIKETHROUGH"}
    off = {22: {"BOLD", "DIMMED"}, 23: {"ITALIC"}, 24: {"UNDERLINE"}, 25: {"BLINK"}, 27: {"INVERT"}, 28: {"HIDDEN"}, 29: {"STRIKETHROUGH"}}
    ansi = ["Black", "Red", "Green", "Yellow", "Blue", "Magenta", "Cyan", "White"]
    while i < n:
        c = codes[i]
        if c == 0:
            fg = bg = ul = None
            eff = set()
        elif c in names:
            eff.add(names[c])
        elif c in off:
            eff -= off[c]
        elif 30 <= c <= 37:
            fg = f"Ansi({ansi[c - 30]})"
        elif 40 <= c <= 47:
            bg = f"Ansi({ansi[c - 40]})"
        elif 90 <= c <= 97:
            fg = f"Ansi(Bright{ansi[c - 90]})"
        elif 100 <= c <= 107:
            bg = f"Ansi(Bright{ansi[c - 100]})"
        elif c in (39, 49, 59):
            if c == 39:
                fg = None
            elif c == 49:
                bg = None
            else:
                ul = None
        elif c in (38, 48, 58):
            if i + 2 < n and codes[i + 1] == 5:
                col = f"Ansi256(Ansi256Color({codes[i + 2]}))"
                i += 2
            elif i + 4 < n and codes[i + 1] == 2:
                col = f"Rgb(RgbColor({codes[i + 2]}, {codes[i + 3]}, {codes[i + 4]}))"
                i += 4
            else:
                return None  # outside what the property fixes
            if c == 38:
                fg = col
            elif c == 48:
                bg = col
            else:
                ul = col
        elif c == 21:
            return None
        i += 1
    order = ["BOLD", "DIMMED", "ITALIC", "UNDERLINE", "DOUBLE_UNDERLINE", "CURLY_UNDERLINE", "DOTTED_UNDERLINE", "DASHED_UNDERLINE", "BLINK", "INVERT", "HIDDEN", "STRIKETHROUGH"]
    e = " | ".join(x for x in order if x in eff)
    f = lambda v: "None" if v is None else f"Some({v})"
    return f"fg={f(fg)} bg={f(bg)} ul={f(ul)} effects=Effects({e})"


def replay_c12(prop, job, tests, out, save):
    bindir = build_helpers(prop)
    m = re.search(r"ls_(codes|reject)_(\d+)(?:_at_(\d+))?$", job.name)
    k = int(m.group(2))
    for t in tests[:3]:
        vals = [v[0] if len(v) == 1 else int.from_bytes(bytes(v), "little") for v in runner.decode_values(t["code"])]
        if len(vals) < k:
            continue
        codes = vals[:k]
        fail_at = int(m.group(3)) if m.group(1) == "reject" else k
        fields = [str(c) for c in codes]
        if fail_at < k:
            fields[fail_at] = "x"
        arg = ";".join(fields)
        if arg in ("0", "00", ""):
            continue
        r = subprocess.run([str(bindir / "c12_native"), arg], capture_output=True, text=True, timeout=60)
        got = r.stdout.strip()
        if r.returncode != 0:
            exp = "no panic"
            bad = True
        elif fail_at < k:
            exp = "None"
            bad = got != "None"
        else:
            exp = ls_reference(codes)
            bad = exp is not None and got != exp
        if bad:
            path = save(prop, job, t, extra={"ls_colors_value": arg, "real_result": got or r.stderr[-300:], "expected": exp})
            runner.log(f"  counterexample for {job.name} reproduced natively: parse({arg!r}) = {got or 'panic'} ; expected {exp}")
            out.violations.append(path)
            return
    out.inconclusive.append(f"{job.name}: FAILED but the counterexample does not reproduce through the real decimal parser (stub or oracle problem)")


# ------------------------------------------------------------------------------------ C10
def _metric(c1, c2):
    R = c1[0] + c2[0]
    return (1024 + R) * (c1[0] - c2[0]) ** 2 + 1024 * (c1[1] - c2[1]) ** 2 + (1534 - R) * (c1[2] - c2[2]) ** 2


def _xterm_table():
    cube = [0, 95, 135, 175, 215, 255]
    t = {}
    for i in range(16, 232):
        j = i - 16
        t[i] = (cube[j // 36], cube[(j // 6) % 6], cube[j % 6])
    for i in range(232, 256):
        v = 8 + 10 * (i - 232)
        t[i] = (v, v, v)
    return t


def replay_c10(prop, job, tests, out, save):
    """K2 harnesses stub the metric by a table, which has no native counterpart.  A failing
    table is turned into a concrete palette that realises the same ordering under the REAL
    metric (grey levels seen from black: distance is strictly monotone in the level), and the
    real conversion is compared with the lowest-index-of-minimal-distance specification."""
    import random

    bindir = build_helpers(prop)
    exe = str(bindir / "c10_native")

    def ask(lines):
        r = subprocess.run([exe], input="\n".join(lines) + "\n", capture_output=True, text=True, timeout=300)
        return [int(x) for x in r.stdout.split()]

    if "xterm_scan" in job.name:
        # no table can be imposed on the fixed 240 colours: search concrete colours instead
        tab = _xterm_table()
        rnd = random.Random(12345)
        cols = [(r, g, b) for r in (0, 47, 48, 95, 115, 135, 255) for g in (0, 47, 95, 96, 175, 255) for b in (0, 8, 13, 95, 238, 255)]
        cols += list(tab.values())
        cols += [(rnd.randrange(256), rnd.randrange(256), rnd.randrange(256)) for _ in range(20000)]
        got = ask([f"xterm {r} {g} {b}" for r, g, b in cols])
        for c, gi in zip(cols, got):
            best = min(range(16, 256), key=lambda i: (_metric(c, tab[i]), i))
            if gi != best:
                path = save(prop, job, tests[0], extra={"colour": c, "real_index": gi, "expected_index": best})
                runner.log(f"  violation of {job.name} reproduced natively: rgb_to_xterm{c} = {gi}, nearest (lowest index) is {best}")
                out.violations.append(path)
                return
        out.inconclusive.append(f"{job.name}: FAILED for some distance table, but no concrete colour among 20k+ reproduces it natively")
        return
    for t in tests[:3]:
        vals = [v[0] if len(v) == 1 else int.from_bytes(bytes(v), "little") for v in runner.decode_values(t["code"])]
        if "palette_scan" in job.name:
            # q (3 values), t[16], tags[16]
            if len(vals) < 35:
                continue
            table, tags = vals[3:19], [x % 16 for x in vals[19:35]]
            key = [table[tags[i]] for i in range(16)]
        else:
            # xterm_to_ansi: i, t[16]; palette tagged by index
            if len(vals) < 17:
                continue
            key = vals[1:17]
        levels = sorted(set(key))
        greys = [10 * (levels.index(k) + 1) for k in key]
        pal = " ".join(f"{g} {g} {g}" for g in greys)
        real = ask([f"ansi 0 0 0 {pal}"])
        want = min(range(16), key=lambda i: (_metric((0, 0, 0), (greys[i],) * 3), i))
        if real and real[0] != want:
            path = save(prop, job, t, extra={"query": [0, 0, 0], "palette_greys": greys, "real_index": real[0], "expected_index": want})
            runner.log(f"  counterexample for {job.name} reproduced natively: palette greys {greys}, colour (0,0,0): real {real[0]}, lowest index of minimal distance {want}")
            out.violations.append(path)
            return
    out.inconclusive.append(f"{job.name}: FAILED but the realised palette does not reproduce it natively (stub or oracle problem)")
