"""known_findings.json: genuine defects recorded rather than repaired, and repaired ones.

The file is read-only at run time.  Entry fields:
  property, id, status ("known" | "fixed"), summary,
  witness: harness (crate/name/features) that runs the real code on the concrete failing
           input and asserts the property -- expected to FAIL while the defect is present,
  exclude_feature: cargo feature of the harness crate that turns on a narrow
           kani::assume(!class(input)) so the solver looks for any *other* violation,
  commit (for "fixed").
"""
import json
from pathlib import Path

PATH = Path(__file__).resolve().parent.parent / "known_findings.json"


def load(prop: str) -> list:
    if not PATH.exists():
        return []
    data = json.loads(PATH.read_text())
    out = []
    for f in data.get("findings", []):
        if f.get("property") == prop:
            out.append(f)
        elif prop in f.get("also_excluded_in", []):
            # the same input class reaches this property's harnesses too: exclude it there as
            # well, but report (and witness) the finding only under its own property
            g = dict(f)
            g.pop("witness", None)
            g["foreign"] = True
            out.append(g)
    return out
