"""Runner for solver jobs (cargo-kani / SMT) with parallelism, caps, log parsing, replay.

Exit-code protocol of a check (see DESIGN.md §2):
  0  every query of the tier answered UNSAT/SUCCESSFUL with its cover points satisfied
  1  a natively reproduced violation that known_findings.json does not list
  2  inconclusive: timeout, OOM, build error, unwinding assertion, vacuous harness,
     counterexample that does not reproduce
"""
from __future__ import annotations

import concurrent.futures as cf
import hashlib
import json
import os
import re
import resource
import shutil
import subprocess
import sys
import time
from dataclasses import dataclass, field
from pathlib import Path

VERIF = Path(__file__).resolve().parent.parent
REPO = Path(os.environ.get("VERIF_REPO", "/repo"))
WORK = VERIF / ".work"
# one work directory per driver process, so that overlapping runs never touch each other
TAG = f"{os.getpid()}"


def workdir(prop: str) -> Path:
    return WORK / f"{prop}-{TAG}"
# runs against a scratch tree (VERIF_REPO) never touch the committed evidence
EVIDENCE = VERIF / "evidence" if os.environ.get("VERIF_REPO", "/repo") == "/repo" else Path("/tmp/seed-evidence")
CRATES = {
    "core": VERIF / "harness" / "core",
    "adapters": VERIF / "harness" / "adapters",
    "wincon": VERIF / "harness" / "wincon",
    "parse": VERIF / "harness" / "parse",
}

BASE_ENV = dict(os.environ)
BASE_ENV.update(
    {
        "CARGO_NET_OFFLINE": "true",
        "CARGO_TERM_COLOR": "never",
        "NO_COLOR": "1",
    }
)
# cargo-kani picks its own pinned toolchain; a stray override would break it
BASE_ENV.pop("RUSTUP_TOOLCHAIN", None)
BASE_ENV.pop("RUSTFLAGS", None)


@dataclass
class Job:
    """One solver query: a Kani harness with concrete shape and symbolic values."""

    name: str  # harness path inside the crate, e.g. "c02::transition_table"
    crate: str = "core"
    features: list = field(default_factory=list)
    flags: list = field(default_factory=list)  # extra cargo-kani flags
    stubbing: bool = False
    timeout_s: int = 600
    mem_gb: int = 12
    optional: bool = False  # a cap hit shrinks the claim instead of failing the run
    checks: str = "functional"  # "functional": property asserts only; "all": Kani defaults (C04)
    bound: str = ""  # human-readable statement of the bound this query covers
    expect_fail: bool = False  # known-finding witness: the harness is expected to FAIL
    replay: str = "playback"  # "playback" | "none"
    min_covers: int = 0
    all_covers: bool = True  # every cover point must be SATISFIED (else: at least min_covers)
    expect_gb: int = 0  # memory this query is expected to need (0: a quarter of its cap); used for admission


@dataclass
class Result:
    job: Job
    status: str  # ok | fail | timeout | oom | error | unwind | vacuous
    wall_s: float = 0.0
    symex_s: float = 0.0
    solver_s: float = 0.0
    steps: int = 0
    vars: int = 0
    clauses: int = 0
    checks_total: int = 0
    checks_failed: int = 0
    covers_total: int = 0
    covers_sat: int = 0
    cover_names: list = field(default_factory=list)
    failed: list = field(default_factory=list)
    log: str = ""
    peak_rss_mb: int = 0
    rss_gb: float = 0.0
    stubs: list = field(default_factory=list)


def log(msg: str):
    print(msg, flush=True)


def repo_revision() -> dict:
    def run(*a):
        return subprocess.run(a, cwd=REPO, capture_output=True, text=True).stdout

    head = run("git", "rev-parse", "HEAD").strip()
    diff = run("git", "diff", "HEAD")
    status = run("git", "status", "--porcelain")
    return {
        "head": head,
        "dirty": bool(status.strip()),
        "diff_sha256": hashlib.sha256(diff.encode()).hexdigest()[:16],
    }


def retarget(dst: Path):
    """Point a copied harness crate at another tree (VERIF_REPO), for trying the checks on a
    scratch worktree (seeded changes) without touching /repo.  The registered commands never
    set VERIF_REPO, so they always compile /repo itself."""
    if str(REPO) == "/repo":
        return
    for f in list(dst.rglob("*.rs")) + list(dst.rglob("Cargo.toml")):
        t = f.read_text()
        if "/repo/" in t:
            f.write_text(t.replace("/repo/", f"{REPO}/"))


def prepare_crate(prop: str, crate: str) -> Path:
    """Copy a harness crate into the property's work dir and settle its lockfile, so that
    parallel cargo invocations only read it.  Path dependencies point at /repo, hence every
    build compiles /repo's current working tree."""
    dst = workdir(prop) / f"crate-{crate}"
    if dst.exists():
        shutil.rmtree(dst)
    dst.parent.mkdir(parents=True, exist_ok=True)
    shutil.copytree(CRATES[crate], dst, ignore=shutil.ignore_patterns("target", "Cargo.lock"))
    retarget(dst)
    lock = REPO / "Cargo.lock"
    if lock.exists():
        shutil.copy(lock, dst / "Cargo.lock")
    r = subprocess.run(
        ["cargo", "metadata", "--offline", "--format-version", "1"],
        cwd=dst,
        env=BASE_ENV,
        capture_output=True,
        text=True,
    )
    if r.returncode != 0:
        raise RuntimeError(f"cargo metadata failed for {crate}:\n{r.stderr[-2000:]}")
    return dst


def _limits(mem_gb: int):
    def f():
        lim = mem_gb * 1024**3
        resource.setrlimit(resource.RLIMIT_AS, (lim, lim))
        os.setsid()

    return f


FUNCTIONAL_FLAGS = [
    "--no-assertion-reach-checks",
    "--no-memory-safety-checks",
    "--no-overflow-checks",
    "--no-undefined-function-checks",
]


def kani_cmd(job: Job, target_dir: Path, playback: bool = False) -> list:
    cmd = ["cargo", "kani", "--harness", job.name, "--exact", "--target-dir", str(target_dir)]
    feats = list(job.features)
    if feats:
        cmd += ["--features", ",".join(feats)]
    if job.stubbing:
        cmd += ["-Z", "stubbing"]
    if job.checks == "functional":
        cmd += FUNCTIONAL_FLAGS
    else:
        cmd += ["--no-assertion-reach-checks"]
    if playback:
        cmd += ["-Z", "concrete-playback", "--concrete-playback=print"]
    cmd += job.flags
    return cmd


_RE_SUMMARY = re.compile(r"\*\* (\d+) of (\d+) failed")
_RE_COVER = re.compile(r"\*\* (\d+) of (\d+) cover properties satisfied")
_RE_SYMEX = re.compile(r"Runtime Symex: ([0-9.e+-]+)s")
_RE_SOLVER = re.compile(r"Runtime Solver: ([0-9.e+-]+)s")
_RE_STEPS = re.compile(r"size of program expression: (\d+) steps")
_RE_VARS = re.compile(r"(\d+) variables, (\d+) clauses")
_RE_CHECK = re.compile(
    r"^Check \d+: (\S+)\n\s+- Status: (\w+)\n\s+- Description: \"(.*)\"(?:\n\s+- Location: (.*))?",
    re.M,
)


def parse_kani_log(text: str, res: Result):
    m = _RE_SUMMARY.search(text)
    if m:
        res.checks_failed, res.checks_total = int(m.group(1)), int(m.group(2))
    m = _RE_COVER.search(text)
    if m:
        res.covers_sat, res.covers_total = int(m.group(1)), int(m.group(2))
    res.symex_s = sum(float(x) for x in _RE_SYMEX.findall(text))
    res.solver_s = sum(float(x) for x in _RE_SOLVER.findall(text))
    m = _RE_STEPS.search(text)
    if m:
        res.steps = int(m.group(1))
    mm = _RE_VARS.findall(text)
    if mm:
        res.vars, res.clauses = int(mm[-1][0]), int(mm[-1][1])
    for name, status, desc, loc in _RE_CHECK.findall(text):
        if ".cover." in name:
            if status == "SATISFIED":
                res.cover_names.append(desc.replace("cover condition: ", ""))
        elif status in ("FAILURE", "UNDETERMINED") and status == "FAILURE":
            res.failed.append({"check": name, "description": desc, "location": loc})
    res.stubs = re.findall(r"- Stub: (.*)", text)


def classify(text: str, rc: int, res: Result, timed_out: bool):
    if timed_out:
        res.status = "timeout"
        return
    if "VERIFICATION:- SUCCESSFUL" in text:
        if res.job.all_covers and res.covers_total and res.covers_sat < res.covers_total:
            res.status = "vacuous"
        elif res.covers_sat < res.job.min_covers:
            res.status = "vacuous"
        elif res.covers_total < res.job.min_covers:
            res.status = "vacuous"
        else:
            res.status = "ok"
        return
    if "VERIFICATION:- FAILED" in text:
        if "Status: ERROR" in text or "out of memory" in text.lower() or "std::bad_alloc" in text:
            res.status = "oom"
            return
        real = [f for f in res.failed if "unwinding assertion" not in f["description"]]
        unw = [f for f in res.failed if "unwinding assertion" in f["description"]]
        if unw:
            # once an unwinding assertion has failed nothing else CBMC reports is reliable
            res.status = "unwind"
        elif real and all("HARNESS-LIMIT" in f["description"] for f in real):
            res.status = "limit"
        elif real:
            res.status = "fail"
        elif unw:
            res.status = "unwind"
        else:
            res.status = "error"
        return
    if "bad_alloc" in text or "memory allocation" in text or rc in (-9, 137):
        res.status = "oom"
        return
    res.status = "error"


import threading

_MEM_BUDGET_GB = int(os.environ.get("VERIF_MEM_GB", "52"))
_mem_lock = threading.Condition()
_mem_used = 0


def _admit(job: Job) -> int:
    """Memory-aware admission: the sum of expected memory of running solver processes stays
    under the budget (62 GB machine, no swap)."""
    global _mem_used
    need = job.expect_gb or max(2, job.mem_gb // 4)
    need = min(need, _MEM_BUDGET_GB)
    with _mem_lock:
        while _mem_used + need > _MEM_BUDGET_GB:
            _mem_lock.wait()
        _mem_used += need
    return need


def _release(need: int):
    global _mem_used
    with _mem_lock:
        _mem_used -= need
        _mem_lock.notify_all()


def run_job(prop: str, crate_dir: Path, job: Job, idx: int) -> Result:
    need = _admit(job)
    try:
        return _run_job(prop, crate_dir, job, idx)
    finally:
        _release(need)


def _run_job(prop: str, crate_dir: Path, job: Job, idx: int) -> Result:
    res = Result(job=job, status="error")
    safe = re.sub(r"[^A-Za-z0-9_]+", "_", job.name)
    jdir = workdir(prop) / "jobs" / f"{idx:03d}_{safe}"
    jdir.mkdir(parents=True, exist_ok=True)
    logf = jdir / "kani.log"
    cmd = kani_cmd(job, jdir / "target")
    if os.path.exists("/usr/bin/time"):
        cmd = ["/usr/bin/time", "-f", "MAXRSS_KB=%M"] + cmd
    t0 = time.time()
    timed_out = False
    with open(logf, "w") as lf:
        p = subprocess.Popen(
            cmd,
            cwd=crate_dir,
            env=BASE_ENV,
            stdout=lf,
            stderr=subprocess.STDOUT,
            preexec_fn=_limits(job.mem_gb),
        )
        try:
            rc = p.wait(timeout=job.timeout_s)
        except subprocess.TimeoutExpired:
            timed_out = True
            try:
                os.killpg(p.pid, 9)
            except ProcessLookupError:
                pass
            rc = p.wait()
    res.wall_s = round(time.time() - t0, 2)
    text = logf.read_text(errors="replace")
    parse_kani_log(text, res)
    classify(text, rc, res, timed_out)
    m = re.search(r"MAXRSS_KB=(\d+)", text)
    if m:
        res.rss_gb = round(int(m.group(1)) / 1e6, 1)
        res.peak_rss_mb = int(m.group(1)) // 1000
    res.log = str(logf)
    # keep the log, drop the build output (100-300 MB per job)
    shutil.rmtree(jdir / "target", ignore_errors=True)
    return res


def run_jobs(prop: str, jobs: list, workers: int | None = None) -> list:
    """Run all jobs of a property in parallel, one target dir per job."""
    crates = sorted({j.crate for j in jobs})
    dirs = {c: prepare_crate(prop, c) for c in crates}
    workers = workers or int(os.environ.get("VERIF_JOBS", "14"))
    results: list = [None] * len(jobs)
    # longest first
    order = sorted(range(len(jobs)), key=lambda i: -jobs[i].timeout_s)
    with cf.ThreadPoolExecutor(max_workers=workers) as ex:
        futs = {ex.submit(run_job, prop, dirs[jobs[i].crate], jobs[i], i): i for i in order}
        for fut in cf.as_completed(futs):
            i = futs[fut]
            r = fut.result()
            results[i] = r
            log(
                f"  [{r.status:7s}] {r.job.name:45s} {r.wall_s:7.1f}s symex={r.symex_s:.1f}s "
                f"solver={r.solver_s:.1f}s rss={getattr(r, 'rss_gb', 0)}G covers={r.covers_sat}/{r.covers_total}"
                + (f" failed={[f['description'] for f in r.failed][:3]}" if r.failed else "")
            )
    return results


# ---------------------------------------------------------------------------------------
# counterexample extraction and native replay (Kani concrete playback)
# ---------------------------------------------------------------------------------------

_RE_PLAYBACK = re.compile(
    r"/// Test generated for harness `([^`]+)`\s*\n///\s*\n/// Check for `(\w+)`: (.*?)\n\n(#\[test\]\nfn (\w+)\(\) \{.*?\n\})",
    re.S,
)


def extract_playback(prop: str, crate_dir: Path, job: Job, idx: int):
    """Re-run a failed harness asking Kani for concrete values; return the generated unit
    tests for the failing (non-cover) checks."""
    safe = re.sub(r"[^A-Za-z0-9_]+", "_", job.name)
    jdir = workdir(prop) / "jobs" / f"{idx:03d}_{safe}_pb"
    jdir.mkdir(parents=True, exist_ok=True)
    cmd = kani_cmd(job, jdir / "target", playback=True)
    logf = jdir / "kani.log"
    with open(logf, "w") as lf:
        try:
            subprocess.run(
                cmd,
                cwd=crate_dir,
                env=BASE_ENV,
                stdout=lf,
                stderr=subprocess.STDOUT,
                timeout=job.timeout_s * 2,
                preexec_fn=_limits(max(job.mem_gb * 2, 24)),  # building the trace needs more memory
            )
        except subprocess.TimeoutExpired:
            pass
    shutil.rmtree(jdir / "target", ignore_errors=True)
    text = logf.read_text(errors="replace")
    tests = []
    for harness, kind, desc, body, fname in _RE_PLAYBACK.findall(text):
        if kind == "cover":
            continue
        if "unwinding assertion" in desc:
            continue
        tests.append({"harness": harness, "kind": kind, "description": desc.strip(), "test_fn": fname, "code": body})
    return tests


def decode_values(code: str) -> list:
    """The concrete byte vectors of a generated playback test, in kani::any() order."""
    vals = []
    for m in re.finditer(r"vec!\[([0-9, ]*)\],", code):
        inner = m.group(1).strip()
        vals.append([int(x) for x in inner.split(",") if x.strip()] if inner else [])
    return vals


def native_playback(prop: str, job: Job, test: dict, profile_release: bool = False) -> tuple:
    """Compile the harness crate natively (rustc, cfg(kani), Kani's concrete library) with the
    generated test appended to the harness' module and run it: the real code on the solver's
    input.  Returns (reproduced, output)."""
    src_crate = CRATES[job.crate]
    dst = workdir(prop) / "replay" / (test["test_fn"] + ("_rel" if profile_release else ""))
    if dst.exists():
        shutil.rmtree(dst)
    dst.parent.mkdir(parents=True, exist_ok=True)
    shutil.copytree(src_crate, dst, ignore=shutil.ignore_patterns("target", "Cargo.lock"))
    retarget(dst)
    if (REPO / "Cargo.lock").exists():
        shutil.copy(REPO / "Cargo.lock", dst / "Cargo.lock")
    parts = job.name.split("::")[:-1]
    modfile = dst / "src" / Path(*parts).with_suffix(".rs")
    if not modfile.exists():
        modfile = dst / "src" / f"{parts[0]}.rs"
    with open(modfile, "a") as f:
        f.write("\n\n" + test["code"] + "\n")
    cmd = ["cargo", "kani", "playback", "-Z", "concrete-playback"]
    if job.features:
        cmd += ["--features", ",".join(job.features)]
    if job.stubbing:
        cmd += ["-Z", "stubbing"]
    cmd += ["--", test["test_fn"], "--exact", "--nocapture"] if False else ["--", test["test_fn"]]
    env = dict(BASE_ENV)
    if profile_release:
        env["CARGO_PROFILE_TEST_OPT_LEVEL"] = "3"
        env["CARGO_PROFILE_TEST_DEBUG_ASSERTIONS"] = "false"
        env["CARGO_PROFILE_TEST_OVERFLOW_CHECKS"] = "false"
    try:
        r = subprocess.run(cmd, cwd=dst, env=env, capture_output=True, text=True, timeout=900)
        out = r.stdout + r.stderr
    except subprocess.TimeoutExpired:
        out = "timeout"
    shutil.rmtree(dst / "target", ignore_errors=True)
    reproduced = bool(re.search(r"test result: FAILED\. 0 passed; 1 failed", out)) or (
        "panicked at" in out and "test result: FAILED" in out
    )
    ran = "running 1 test" in out
    shutil.rmtree(dst, ignore_errors=True)
    return reproduced, ran, out[-4000:]
