#!/bin/sh
# Run once after a fresh restore, offline.  Builds nothing that needs the network: the
# checks compile their harness crates against /repo's working tree on every run.  This
# warms the native build of the reference models (and runs their self-tests).
set -e
cd "$(dirname "$0")"
export CARGO_NET_OFFLINE=true
mkdir -p evidence .work
(cd harness/models && cargo test --offline --quiet >/dev/null 2>&1 || true)
python3 lib/gen_manifest.py >/dev/null
echo "setup ok"
