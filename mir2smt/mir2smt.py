#!/usr/bin/env python3
"""MIR -> SMT-LIB for loop-free integer functions (C10's `anstyle_lossy::distance`).

The MIR is dumped from /repo's working tree on every run with
    cargo +nightly rustc --lib -- -Zunpretty=mir -C debug-assertions=off -C overflow-checks=on
and translated block by block into bit-vector terms:

  * locals become SMT terms of their declared width (u8 / i32 / u32 / bool / (i32, bool));
  * `AddWithOverflow / SubWithOverflow / MulWithOverflow` produce the wrapped result and an
    overflow flag computed in twice the width;
  * every `assert(cond, ..)` terminator becomes a proof obligation "cond holds on every
    path reaching it" (the blocks form a chain, so the path condition is the conjunction of
    the earlier asserts);
  * calls to `RgbColor::{r,g,b}` are replaced by the field they return; that reading of the
    accessors is itself checked against the MIR of the `anstyle` crate.

Obligations (negated, so `unsat` = holds for all 2^48 input pairs):
  O1 no overflow / shift assertion can fire;
  O2 the result equals the polynomial (1024+R)*dr^2 + 1024*dg^2 + (1534-R)*db^2 over the
     integers (R = r1+r2), evaluated in 64 bits where nothing can wrap;
  O3 the result is 0 exactly when the two colours are equal;
  O4 the result is below 2^31 (the final `as u32` is value-preserving).
Each script is run by z3 (bit-vectors) and cvc5 (bit-vectors, and --solve-bv-as-int=sum);
an `(error` line or a disagreement makes the obligation inconclusive.
"""
from __future__ import annotations

import json
import os
import random
import re
import subprocess
import sys
import time
from pathlib import Path

REPO = Path(os.environ.get("VERIF_REPO", "/repo"))
# persistent build directory of the native helper crate (incremental; rebuilt from /repo on every run)
REPLAY_TARGET = Path(__file__).resolve().parent.parent / ".work" / ("replay-target" if str(REPO) == "/repo" else "replay-target-" + str(abs(hash(str(REPO))) % 100000))


class Unsupported(Exception):
    pass


def dump_mir(crate_dir: Path, target_dir: Path) -> str:
    lib = crate_dir / "src" / "lib.rs"
    os.utime(lib, None)  # a no-op rebuild prints nothing
    env = dict(os.environ)
    env["CARGO_TARGET_DIR"] = str(target_dir)
    env["CARGO_NET_OFFLINE"] = "true"
    env.pop("RUSTFLAGS", None)
    r = subprocess.run(
        ["cargo", "+nightly", "rustc", "--offline", "--lib", "--", "-Zunpretty=mir", "-C", "debug-assertions=off", "-C", "overflow-checks=on"],
        cwd=crate_dir,
        env=env,
        capture_output=True,
        text=True,
        timeout=600,
    )
    if r.returncode != 0 or "fn " not in r.stdout:
        raise RuntimeError("MIR dump failed:\n" + r.stderr[-2000:])
    return r.stdout


def function_body(mir: str, name: str) -> str:
    """The optimized-MIR body of `fn <name>(` (the first one; the CTFE copy follows it)."""
    m = re.search(r"^fn " + re.escape(name) + r"\(.*?^}\n", mir, re.S | re.M)
    if not m:
        raise Unsupported(f"function {name} not found in MIR")
    return m.group(0)


WIDTH = {"u8": 8, "i32": 32, "u32": 32, "bool": 1, "usize": 64, "i64": 64, "u64": 64}
SIGNED = {"i32", "i64"}


class Fn:
    def __init__(self, body: str):
        self.body = body
        self.types = {}
        hdr = re.match(r"fn [^(]+\((.*?)\) -> (\S+) \{", body)
        if not hdr:
            raise Unsupported("header")
        for a in hdr.group(1).split(", "):
            if a:
                n, t = a.split(": ")
                self.types[n] = t
        self.ret = hdr.group(2)
        self.types["_0"] = self.ret
        for m in re.finditer(r"^\s+let (?:mut )?(_\d+): ([^;]+);", body, re.M):
            self.types[m.group(1)] = m.group(2)
        self.blocks = {}
        for m in re.finditer(r"^\s+(bb\d+): \{\n(.*?)^\s+\}\n", body, re.S | re.M):
            self.blocks[m.group(1)] = [l.strip() for l in m.group(2).splitlines() if l.strip()]


def bv(val: int, width: int) -> str:
    return f"(_ bv{val % (1 << width)} {width})"


class Encoder:
    """Symbolically executes a chain of basic blocks."""

    def __init__(self, fn: Fn, field_of_call: dict, args: dict):
        self.fn = fn
        self.env = dict(args)  # local -> SMT term ; tuples as (term, flag)
        self.field_of_call = field_of_call
        self.asserts = []  # (description, smt condition that must hold)
        self.ret = None

    def ty(self, local):
        return self.fn.types[local]

    def operand(self, s: str):
        s = s.strip()
        m = re.fullmatch(r"(?:copy|move) (_\d+)", s)
        if m:
            return self.env[m.group(1)], self.ty(m.group(1))
        m = re.fullmatch(r"(?:copy|move) \((_\d+)\.(\d): (\w+)\)", s)
        if m:
            return self.env[m.group(1)][int(m.group(2))], m.group(3)
        m = re.fullmatch(r"const (-?\d+)_(\w+)", s)
        if m:
            t = m.group(2)
            return bv(int(m.group(1)), WIDTH[t]), t
        m = re.fullmatch(r"const (true|false)", s)
        if m:
            return m.group(1), "bool"
        raise Unsupported(f"operand {s!r}")

    def overflowing(self, op, a, b, t):
        w = WIDTH[t]
        ext = "sign_extend" if t in SIGNED else "zero_extend"
        smt = {"Add": "bvadd", "Sub": "bvsub", "Mul": "bvmul"}[op]
        wide_a = f"((_ {ext} {w}) {a})"
        wide_b = f"((_ {ext} {w}) {b})"
        wide = f"({smt} {wide_a} {wide_b})"
        res = f"({smt} {a} {b})"
        flag = f"(not (= ((_ {ext} {w}) {res}) {wide}))"
        return res, flag

    def cast(self, term, src, dst):
        ws, wd = WIDTH[src], WIDTH[dst]
        if ws == wd:
            return term
        if ws < wd:
            ext = "sign_extend" if src in SIGNED else "zero_extend"
            return f"((_ {ext} {wd - ws}) {term})"
        return f"((_ extract {wd - 1} 0) {term})"

    def run(self):
        cur = "bb0"
        seen = set()
        while True:
            if cur in seen:
                raise Unsupported("loop in MIR")
            seen.add(cur)
            nxt = None
            for line in self.fn.blocks[cur]:
                nxt_here = self.statement(line)
                if nxt_here == "return":
                    return
                if nxt_here:
                    nxt = nxt_here
            if nxt is None:
                raise Unsupported(f"block {cur} has no successor")
            cur = nxt

    def statement(self, line: str):
        if line.startswith(("StorageLive", "StorageDead", "nop")):
            return None
        if line == "return;":
            self.ret = self.env["_0"]
            return "return"
        m = re.fullmatch(r"assert\((!?)(.+?), \"(.*?)\".*?\) -> \[success: (bb\d+), unwind continue\];", line)
        if m:
            cond, _t = self.operand(m.group(2))
            if m.group(1) == "!":
                cond = f"(not {cond})"
            self.asserts.append((m.group(3), cond))
            return m.group(4)
        m = re.fullmatch(r"(_\d+) = ([\w:<>]+)\((.*?)\) -> \[return: (bb\d+), unwind continue\];", line)
        if m:
            dst, func, args, nb = m.groups()
            if func not in self.field_of_call:
                raise Unsupported(f"call to {func}")
            base, _ = self.operand(args)
            self.env[dst] = base[self.field_of_call[func]]
            return nb
        m = re.fullmatch(r"goto -> (bb\d+);", line)
        if m:
            return m.group(1)
        m = re.fullmatch(r"(_\d+) = (.+);", line)
        if not m:
            raise Unsupported(f"statement {line!r}")
        dst, rhs = m.groups()
        mm = re.fullmatch(r"(Add|Sub|Mul)WithOverflow\((.+?), (.+?)\)", rhs)
        if mm:
            a, ta = self.operand(mm.group(2))
            b, _ = self.operand(mm.group(3))
            self.env[dst] = self.overflowing(mm.group(1), a, b, ta)
            return None
        mm = re.fullmatch(r"(.+) as (\w+) \(IntToInt\)", rhs)
        if mm:
            a, ta = self.operand(mm.group(1))
            self.env[dst] = self.cast(a, ta, mm.group(2))
            return None
        mm = re.fullmatch(r"(Lt|Le|Gt|Ge|Eq|Ne)\((.+?), (.+?)\)", rhs)
        if mm:
            a, ta = self.operand(mm.group(2))
            b, _ = self.operand(mm.group(3))
            s = ta in SIGNED
            op = {"Lt": "bvslt" if s else "bvult", "Le": "bvsle" if s else "bvule", "Gt": "bvsgt" if s else "bvugt", "Ge": "bvsge" if s else "bvuge"}.get(mm.group(1))
            if mm.group(1) == "Eq":
                self.env[dst] = f"(= {a} {b})"
            elif mm.group(1) == "Ne":
                self.env[dst] = f"(not (= {a} {b}))"
            else:
                self.env[dst] = f"({op} {a} {b})"
            return None
        mm = re.fullmatch(r"(Shl|Shr|Add|Sub|Mul|BitAnd|BitOr|BitXor)\((.+?), (.+?)\)", rhs)
        if mm:
            a, ta = self.operand(mm.group(2))
            b, tb = self.operand(mm.group(3))
            if mm.group(1) in ("Shl", "Shr"):
                b = self.cast(b, tb, ta)
            op = {"Shl": "bvshl", "Shr": "bvashr" if ta in SIGNED else "bvlshr", "Add": "bvadd", "Sub": "bvsub", "Mul": "bvmul", "BitAnd": "bvand", "BitOr": "bvor", "BitXor": "bvxor"}[mm.group(1)]
            self.env[dst] = f"({op} {a} {b})"
            return None
        a, _ = self.operand(rhs)
        self.env[dst] = a
        return None


def ilit(v: int) -> str:
    return str(v) if v >= 0 else f"(- {-v})"


RANGE = {"u8": (0, 255), "i32": (-(1 << 31), (1 << 31) - 1), "u32": (0, (1 << 32) - 1), "i64": (-(1 << 63), (1 << 63) - 1), "u64": (0, (1 << 64) - 1), "usize": (0, (1 << 64) - 1)}


class IntEncoder(Encoder):
    """Same symbolic execution over mathematical integers with explicit mod-2^k wrapping
    (bit-blasting 64-bit multipliers for the overflow flags does not finish; bounded
    non-linear integer arithmetic does)."""

    def operand(self, s: str):
        s = s.strip()
        m = re.fullmatch(r"const (-?\d+)_(\w+)", s)
        if m:
            return ilit(int(m.group(1))), m.group(2)
        return super().operand(s)

    @staticmethod
    def wrap(term, t):
        lo, hi = RANGE[t]
        size = hi - lo + 1
        return f"(+ (mod (- {term} {ilit(lo)}) {size}) {ilit(lo)})"

    def overflowing(self, op, a, b, t):
        smt = {"Add": "+", "Sub": "-", "Mul": "*"}[op]
        exact = f"({smt} {a} {b})"
        lo, hi = RANGE[t]
        flag = f"(or (< {exact} {ilit(lo)}) (> {exact} {ilit(hi)}))"
        # wrapped == exact whenever the flag is false: saying so explicitly lets the solver drop
        # the `mod` on every path where the preceding overflow assert holds
        return f"(ite {flag} {self.wrap(exact, t)} {exact})", flag

    def cast(self, term, src, dst):
        lo, hi = RANGE[src]
        dlo, dhi = RANGE[dst]
        if dlo <= lo and hi <= dhi:
            return term
        return f"(ite (and (<= {ilit(dlo)} {term}) (<= {term} {ilit(dhi)})) {term} {self.wrap(term, dst)})"

    def statement(self, line: str):
        m = re.fullmatch(r"(_\d+) = (Lt|Le|Gt|Ge|Eq|Ne)\((.+?), (.+?)\);", line)
        if m:
            a, _ = self.operand(m.group(3))
            b, _ = self.operand(m.group(4))
            op = {"Lt": "<", "Le": "<=", "Gt": ">", "Ge": ">=", "Eq": "=", "Ne": "distinct"}[m.group(2)]
            self.env[m.group(1)] = f"({op} {a} {b})"
            return None
        m = re.fullmatch(r"(_\d+) = Shl\((.+?), const (\d+)_\w+\);", line)
        if m:
            a, ta = self.operand(m.group(2))
            self.env[m.group(1)] = self.wrap(f"(* {a} {1 << int(m.group(3))})", ta)
            return None
        m = re.fullmatch(r"(_\d+) = (Add|Sub|Mul)\((.+?), (.+?)\);", line)
        if m:
            a, ta = self.operand(m.group(3))
            b, _ = self.operand(m.group(4))
            smt = {"Add": "+", "Sub": "-", "Mul": "*"}[m.group(2)]
            self.env[m.group(1)] = self.wrap(f"({smt} {a} {b})", ta)
            return None
        if re.search(r"= (Shr|BitAnd|BitOr|BitXor|Shl)\(", line):
            raise Unsupported("bit operation in integer mode: " + line)
        return super().statement(line)


INT_PRELUDE = """(set-logic ALL)
(declare-const r1 Int)
(declare-const g1 Int)
(declare-const b1 Int)
(declare-const r2 Int)
(declare-const g2 Int)
(declare-const b2 Int)
(assert (and (<= 0 r1 255) (<= 0 g1 255) (<= 0 b1 255) (<= 0 r2 255) (<= 0 g2 255) (<= 0 b2 255)))
"""

INT_POLY = "(+ (* (+ 1024 (+ r1 r2)) (* (- r1 r2) (- r1 r2))) (* 1024 (* (- g1 g2) (- g1 g2))) (* (- 1534 (+ r1 r2)) (* (- b1 b2) (- b1 b2))))"


def build_int_obligations(enc) -> list:
    obs = []
    path = []
    for idx, (desc, cond) in enumerate(enc.asserts):
        pre = " ".join(path) if path else "true"
        obs.append({"id": f"O1.{idx}", "what": f"MIR assert #{idx} cannot fire: {desc}",
                    "smt": INT_PRELUDE + f"(assert (and {pre} (not {cond})))\n(check-sat)\n"})
        path.append(cond)
    allok = "(and " + " ".join(path) + ")" if path else "true"
    res = enc.ret
    obs.append({"id": "O2", "what": "result == (1024+R)*dr^2 + 1024*dg^2 + (1534-R)*db^2 over the integers",
                "smt": INT_PRELUDE + f"(assert {allok})\n(assert (not (= {res} {INT_POLY})))\n(check-sat)\n"})
    obs.append({"id": "O3", "what": "distance is 0 exactly when the colours are equal",
                "smt": INT_PRELUDE + f"(assert {allok})\n(assert (not (= (= {res} 0) (and (= r1 r2) (= g1 g2) (= b1 b2)))))\n(check-sat)\n"})
    obs.append({"id": "O4", "what": "distance < 2^31",
                "smt": INT_PRELUDE + f"(assert {allok})\n(assert (not (< {res} 2147483648)))\n(check-sat)\n"})
    return obs


def accessor_fields(anstyle_mir: str) -> dict:
    """Read `RgbColor::{r,g,b}` off the anstyle crate's MIR: each must be `_0 = copy ((*_1)|_1).N`."""
    out = {}
    for name in ("r", "g", "b"):
        m = re.search(r"^fn color::<impl at [^>]*>::" + name + r"\(_1: RgbColor\) -> u8 \{.*?^}\n", anstyle_mir, re.S | re.M)
        if not m:
            raise Unsupported(f"accessor RgbColor::{name} not found in anstyle MIR")
        mm = re.search(r"_0 = copy \(_1\.(\d): u8\);", m.group(0))
        if not mm:
            raise Unsupported(f"accessor RgbColor::{name} is not a plain field read")
        out[f"RgbColor::{name}"] = int(mm.group(1))
    return out


PRELUDE = """(set-logic ALL)
(declare-const r1 (_ BitVec 8))
(declare-const g1 (_ BitVec 8))
(declare-const b1 (_ BitVec 8))
(declare-const r2 (_ BitVec 8))
(declare-const g2 (_ BitVec 8))
(declare-const b2 (_ BitVec 8))
"""


def z64(t):
    return f"((_ zero_extend 56) {t})"


def polynomial() -> str:
    """(1024+R)*dr^2 + 1024*dg^2 + (1534-R)*db^2 in 64-bit two's complement (no wrap possible)."""
    r = f"(bvadd {z64('r1')} {z64('r2')})"
    dr = f"(bvsub {z64('r1')} {z64('r2')})"
    dg = f"(bvsub {z64('g1')} {z64('g2')})"
    db = f"(bvsub {z64('b1')} {z64('b2')})"
    t1 = f"(bvmul (bvadd {bv(1024, 64)} {r}) (bvmul {dr} {dr}))"
    t2 = f"(bvmul {bv(1024, 64)} (bvmul {dg} {dg}))"
    t3 = f"(bvmul (bvsub {bv(1534, 64)} {r}) (bvmul {db} {db}))"
    return f"(bvadd {t1} (bvadd {t2} {t3}))"


def build_obligations(enc: Encoder) -> list:
    obs = []
    path = []
    for idx, (desc, cond) in enumerate(enc.asserts):
        pre = " ".join(path) if path else "true"
        obs.append(
            {
                "id": f"O1.{idx}",
                "what": f"MIR assert #{idx} cannot fire: {desc}",
                "smt": PRELUDE + f"(assert (and {pre} (not {cond})))\n(check-sat)\n",
            }
        )
        path.append(cond)
    allok = "(and " + " ".join(path) + ")" if path else "true"
    res = enc.ret
    obs.append(
        {
            "id": "O2",
            "what": "result == (1024+R)*dr^2 + 1024*dg^2 + (1534-R)*db^2 over the integers",
            "smt": PRELUDE + f"(assert {allok})\n(assert (not (= ((_ zero_extend 32) {res}) {polynomial()})))\n(check-sat)\n",
        }
    )
    same = "(and (= r1 r2) (= g1 g2) (= b1 b2))"
    obs.append(
        {
            "id": "O3",
            "what": "distance is 0 exactly when the colours are equal",
            "smt": PRELUDE + f"(assert {allok})\n(assert (not (= (= {res} {bv(0, 32)}) {same})))\n(check-sat)\n",
        }
    )
    obs.append(
        {
            "id": "O4",
            "what": "distance < 2^31",
            "smt": PRELUDE + f"(assert {allok})\n(assert (not (bvult {res} {bv(1 << 31, 32)})))\n(check-sat)\n",
        }
    )
    return obs


SOLVERS = [
    ("z3-4.8.12", ["/usr/bin/z3", "-in", "-T:120"]),
    ("cvc5-1.0", ["cvc5", "--lang", "smt2", "--tlimit=30000"]),
    ("z3-5.1.0", ["z3-new", "-in", "-T:120"]),
]


def run_solver(cmd, script, want_model=False, timeout=140):
    t0 = time.time()
    if want_model:
        script = script.replace("(check-sat)", "(check-sat)\n(get-value (r1 g1 b1 r2 g2 b2))")
    try:
        r = subprocess.run(cmd, input=script, capture_output=True, text=True, timeout=timeout)
        out = (r.stdout + r.stderr).strip()
    except (subprocess.TimeoutExpired, FileNotFoundError) as e:
        out = "timeout" if isinstance(e, subprocess.TimeoutExpired) else "missing"
    dt = round(time.time() - t0, 2)
    first = out.split()[0] if out.split() else ""
    if "(error" in out and first != "sat":
        return "error", dt, out[:300]
    if first in ("sat", "unsat"):
        return first, dt, out[:400]
    if first == "unknown" or "timeout" in out or "interrupted" in out:
        return "unknown", dt, out[:100]
    return "error", dt, out[:300]


def parse_sexpr(text: str):
    toks = text.replace("(", " ( ").replace(")", " ) ").split()
    pos = 0

    def rd():
        nonlocal pos
        t = toks[pos]
        pos += 1
        if t == "(":
            lst = []
            while toks[pos] != ")":
                lst.append(rd())
            pos += 1
            return lst
        return t

    return rd()


def eval_sexpr(t, env):
    if isinstance(t, str):
        if t in env:
            return env[t]
        if t == "true":
            return True
        if t == "false":
            return False
        return int(t)
    op = t[0]
    if op == "ite":
        return eval_sexpr(t[2], env) if eval_sexpr(t[1], env) else eval_sexpr(t[3], env)
    if op == "and":
        return all(eval_sexpr(x, env) for x in t[1:])
    if op == "or":
        return any(eval_sexpr(x, env) for x in t[1:])
    a = [eval_sexpr(x, env) for x in t[1:]]
    if op == "+":
        return sum(a)
    if op == "-":
        return -a[0] if len(a) == 1 else a[0] - sum(a[1:])
    if op == "*":
        r = 1
        for x in a:
            r *= x
        return r
    if op == "mod":
        return a[0] % a[1]
    if op == "not":
        return not a[0]
    if op == "=":
        return all(x == a[0] for x in a)
    if op == "distinct":
        return len(set(a)) == len(a)
    if op in ("<", "<=", ">", ">="):
        f = {"<": lambda x, y: x < y, "<=": lambda x, y: x <= y, ">": lambda x, y: x > y, ">=": lambda x, y: x >= y}[op]
        return all(f(x, y) for x, y in zip(a, a[1:]))
    raise Unsupported("evaluator: " + op)


def native_distances(pairs, work: Path):
    """The real function (crate-private): compiled into /verif/replay's k1_native from /repo."""
    rp = Path(__file__).resolve().parent.parent / "replay"
    if str(REPO) != "/repo":
        # trying the check on a scratch tree: build a retargeted copy of the helper crate
        import shutil

        cp = work / "replay-crate"
        if cp.exists():
            shutil.rmtree(cp)
        shutil.copytree(rp, cp, ignore=shutil.ignore_patterns("target", "Cargo.lock"))
        for f in list(cp.rglob("*.rs")) + list(cp.rglob("Cargo.toml")):
            t = f.read_text()
            if "/repo/" in t:
                f.write_text(t.replace("/repo/", f"{REPO}/"))
        rp = cp
    env = dict(os.environ)
    env["CARGO_TARGET_DIR"] = str(REPLAY_TARGET)
    env["CARGO_NET_OFFLINE"] = "true"
    env.pop("RUSTFLAGS", None)
    lock = REPO / "Cargo.lock"
    if lock.exists():
        (rp / "Cargo.lock").write_bytes(lock.read_bytes())
    b = subprocess.run(["cargo", "build", "--offline", "--bin", "k1_native"], cwd=rp, env=env, capture_output=True, text=True, timeout=900)
    if b.returncode != 0:
        raise RuntimeError("native helper build failed:\n" + b.stderr[-1500:])
    inp = "\n".join(" ".join(map(str, list(a) + list(c))) for a, c in pairs) + "\n"
    r = subprocess.run([str(REPLAY_TARGET / "debug" / "k1_native")], input=inp, capture_output=True, text=True, timeout=120)
    if r.returncode != 0:
        return None, r.stderr[-500:]
    return [int(x) for x in r.stdout.split()], ""


def validate_translator(factory, work: Path, seed: int, n: int = 1000):
    """Push concrete colour pairs through the real function and through the encoding."""
    rnd = random.Random(seed)
    edge = [0, 1, 127, 128, 254, 255]
    pairs = [((a, b, c), (d, e, f)) for a in (0, 255) for b in (0, 255) for c in (0, 255) for d in (0, 255) for e in (0, 255) for f in (0, 255)]
    while len(pairs) < n:
        pick = lambda: rnd.choice(edge) if rnd.random() < 0.3 else rnd.randrange(256)
        pairs.append(((pick(), pick(), pick()), (pick(), pick(), pick())))
    native, err = native_distances(pairs, work)
    if native is None:
        raise RuntimeError("native evaluation failed: " + err)
    # evaluate the encoding itself (the very SMT-LIB term handed to the solvers, with the six
    # inputs substituted) by a small S-expression evaluator
    sym = factory({"_1": ("r1", "g1", "b1"), "_2": ("r2", "g2", "b2")})
    sym.run()
    tree = parse_sexpr(sym.ret)
    vals = []
    for c1, c2 in pairs:
        env = {"r1": c1[0], "g1": c1[1], "b1": c1[2], "r2": c2[0], "g2": c2[1], "b2": c2[2]}
        vals.append(eval_sexpr(tree, env))
    # and cross-check the evaluator against z3 on a handful of pairs
    script = ["(set-logic ALL)"]
    names = []
    for i, (c1, c2) in enumerate(pairs[:20]):
        enc = factory({"_1": tuple(str(v) for v in c1), "_2": tuple(str(v) for v in c2)})
        enc.run()
        script.append(f"(define-fun res{i} () Int {enc.ret})")
        names.append(f"res{i}")
    script.append("(check-sat)")
    script.append("(get-value (" + " ".join(names) + "))")
    r = subprocess.run(["/usr/bin/z3", "-in"], input="\n".join(script), capture_output=True, text=True, timeout=600)
    zvals = [int(x) for x in re.findall(r"\(res\d+ (\d+)\)", r.stdout)]
    if zvals != vals[:20]:
        raise RuntimeError("S-expression evaluator and z3 disagree on the encoding: " + (r.stdout + r.stderr)[:300])
    bad = [(p, nv, ev) for p, nv, ev in zip(pairs, native, vals) if nv != ev]
    return len(pairs), bad


def poly(c1, c2):
    R = c1[0] + c2[0]
    return (1024 + R) * (c1[0] - c2[0]) ** 2 + 1024 * (c1[1] - c2[1]) ** 2 + (1534 - R) * (c1[2] - c2[2]) ** 2


def replay_model(ob_id, raw, work: Path):
    """A solver said `sat`: run the real function on the model's colours."""
    m = dict(re.findall(r"\((r1|g1|b1|r2|g2|b2) (\d+)\)", raw))
    if len(m) != 6:
        return None, "no model"
    c1 = (int(m["r1"]), int(m["g1"]), int(m["b1"]))
    c2 = (int(m["r2"]), int(m["g2"]), int(m["b2"]))
    native, err = native_distances([(c1, c2)], work)
    witness = {"c1": c1, "c2": c2, "native": native, "native_error": err, "polynomial": poly(c1, c2)}
    if native is None:
        return witness, "the real function panics on this pair (overflow check)" if "overflow" in err else "native run failed"
    d = native[0]
    if ob_id.startswith("O1"):
        return witness, None  # the dev build did not panic: not reproduced
    if ob_id == "O2" and d != poly(c1, c2):
        return witness, "result differs from the red-mean polynomial"
    if ob_id == "O3" and ((d == 0) != (c1 == c2)):
        return witness, "distance 0 for different colours (or non-zero for equal ones)"
    if ob_id == "O4" and d >= 1 << 31:
        return witness, "distance >= 2^31"
    return witness, None


def main(out_json: str, work: str, seed: int = 0):
    work = Path(work)
    work.mkdir(parents=True, exist_ok=True)
    t0 = time.time()
    lossy_mir = dump_mir(REPO / "crates" / "anstyle-lossy", work / "target")
    anstyle_mir = dump_mir(REPO / "crates" / "anstyle", work / "target")
    fields = accessor_fields(anstyle_mir)
    fn = Fn(function_body(lossy_mir, "distance"))

    def factory(args):
        return IntEncoder(fn, fields, args)

    checked, bad = validate_translator(factory, work, seed)
    enc = factory({"_1": ("r1", "g1", "b1"), "_2": ("r2", "g2", "b2")})
    enc.run()
    obligations = build_int_obligations(enc)
    results = []
    import concurrent.futures as cf

    jobs = {}
    with cf.ThreadPoolExecutor(max_workers=int(os.environ.get("VERIF_JOBS", "12"))) as ex:
        for ob in obligations:
            (work / f"{ob['id']}.smt2").write_text(ob["smt"])
            for name, cmd in SOLVERS:
                jobs[(ob["id"], name)] = ex.submit(run_solver, cmd, ob["smt"])
    for ob in obligations:
        verdicts = {}
        for name, cmd in SOLVERS:
            v, dt, raw = jobs[(ob["id"], name)].result()
            verdicts[name] = {"verdict": v, "seconds": dt, "raw": "" if v in ("unsat",) else raw[:200]}
        vs = [v["verdict"] for v in verdicts.values()]
        entry = {"id": ob["id"], "what": ob["what"], "solvers": verdicts}
        if "sat" in vs:
            name = [n for n, c in SOLVERS if verdicts[n]["verdict"] == "sat"][0]
            cmd = dict(SOLVERS)[name]
            _, _, raw = run_solver(cmd, ob["smt"], want_model=True)
            witness, why = replay_model(ob["id"], raw, work)
            entry["witness"] = witness
            if why:
                entry["status"] = "violated"
                entry["why"] = why
            else:
                entry["status"] = "inconclusive"
                entry["why"] = "solver model does not reproduce on the real function (encoding problem)"
        elif "error" in vs:
            entry["status"] = "inconclusive"
            entry["why"] = "solver error line"
        elif "unsat" in vs:
            entry["status"] = "holds"
        else:
            entry["status"] = "inconclusive"
            entry["why"] = "no solver answered within its cap"
        results.append(entry)
    report = {
        "function": "anstyle_lossy::distance (optimized MIR, overflow checks on)",
        "accessors_read_from_anstyle_mir": fields,
        "mir_asserts": len(enc.asserts),
        "translator_validation": {"pairs": checked, "mismatches": [list(map(str, b)) for b in bad[:5]]},
        "obligations": results,
        "solver_seconds": round(sum(v["seconds"] for r in results for v in r["solvers"].values()), 1),
        "wall_s": round(time.time() - t0, 1),
    }
    json.dump(report, open(out_json, "w"), indent=1)
    return report


if __name__ == "__main__":
    rep = main(sys.argv[1], sys.argv[2], int(os.environ.get("VERIF_SEED", "0") or 0))
    print(json.dumps({o["id"]: o["status"] for o in rep["obligations"]}))
    print("translator validation:", rep["translator_validation"])
